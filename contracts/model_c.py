"""Contracts of the small model functions (constructors, child operations, exception constructors).

Callers inline these functions (their bodies are short and are their own strongest contract); the units below pin their
behaviour down independently, so that a change inside one of them fails an obligation of *that* function as well.
"""
from pyvc.core import *  # noqa: F403
from pyvc.spec import Contract, Clause, P, H, CANARY

M = "aiomysensors.model."
X = "aiomysensors.exceptions."
CHILDREN = TDict(TInt, TObj("Child"))
VALUES = TDict(TInt, TStr)


def units(world):
    out = []

    def add(q, ct, name=None):
        ct.raises_only_id = "C03/raises-only"
        out.append((name or q, q, ct, None, ()))

    add(M + "message.Message.__init__", Contract(
        M + "message.Message.__init__",
        params={"self": TObj("Message"), "node_id": TInt, "child_id": TInt, "command": TInt, "ack": TInt, "message_type": TInt, "payload": TStr},
        modifies=["self.node_id", "self.child_id", "self.command", "self.ack", "self.message_type", "self.payload"],
        ensures=[P("C01+C04/message-fields-are-the-arguments", "self.node_id == node_id and self.child_id == child_id and self.command == command "
                                                               "and self.ack == ack and self.message_type == message_type and self.payload == payload")],
        raises={}, check_wf=False))
    for with_children in (True, False):
        params = {"self": TObj("Node"), "node_id": TInt, "node_type": TInt, "protocol_version": TStr,
                  "children": CHILDREN if with_children else ("const", None), "sketch_name": TStr, "sketch_version": TStr,
                  "battery_level": TInt, "heartbeat": TInt, "sleeping": TBool}
        kept = "self.children is children" if with_children else "empty(self.children) and is_new(self.children)"
        add(M + "node.Node.__init__", Contract(
            M + "node.Node.__init__", params=params,
            requires=[H("nonempty-children", "not empty(children)")] if with_children else [],
            modifies=["self.node_id", "self.node_type", "self.protocol_version", "self.children", "self.sketch_name", "self.sketch_version",
                      "self.battery_level", "self.heartbeat", "self.reboot", "self.sleeping"],
            ensures=[P("C04+C07+C13/node-attributes-are-the-arguments",
                       "self.node_id == node_id and self.node_type == node_type and self.protocol_version == protocol_version and "
                       "self.sketch_name == sketch_name and self.sketch_version == sketch_version and self.battery_level == battery_level and "
                       f"self.heartbeat == heartbeat and self.sleeping == sleeping and not self.reboot and {kept}")],
            raises={}, check_wf=False), name=M + f"node.Node.__init__[{'children' if with_children else 'no-children'}]")
    add(M + "node.Child.__init__", Contract(
        M + "node.Child.__init__", params={"self": TObj("Child"), "child_id": TInt, "child_type": TInt, "description": TStr, "values": ("const", None)},
        modifies=["self.child_id", "self.child_type", "self.description", "self.values"],
        ensures=[P("C04+C13/child-attributes-are-the-arguments", "self.child_id == child_id and self.child_type == child_type and "
                                                                 "self.description == description and empty(self.values) and is_new(self.values)")],
        raises={}, check_wf=False))
    add(M + "node.Node.add_child", Contract(
        M + "node.Node.add_child", params={"self": TObj("Node"), "child_id": TInt, "child_type": TInt, "description": TStr, "values": ("const", None)},
        modifies=["self.children[child_id]"],
        fresh={"CH": {"type": TObj("Child"), "is": "self.children[child_id]"}, "CHV": {"type": VALUES, "is": "self.children[child_id].values"}},
        ensures=[P("C04/child-added-or-replaced", "child_id in self.children and CH.child_id == child_id and CH.child_type == child_type and "
                                                  "CH.description == description and empty(CHV) and dict_only_at(self.children, child_id)")],
        raises={}))
    add(M + "node.Node.set_child_value", Contract(
        M + "node.Node.set_child_value", params={"self": TObj("Node"), "child_id": TInt, "value_type": TInt, "value": TStr},
        modifies=["self.children[child_id].values[value_type]"],
        ensures=[P("C04/value-set", "old(child_id in self.children) and value_type in self.children[child_id].values and "
                                    "self.children[child_id].values[value_type] == value and dict_only_at(old(self.children[child_id].values), value_type)")],
        raises={"MissingChildError": [P("C04/error-names-child", "exc.child_id == child_id and not old(child_id in self.children)"),
                                      P("C04/error-leaves-registry", "registry_unchanged()")]},
        exc_attrs={"MissingChildError": {"child_id": TInt}}))
    for name, attrs in (("MissingNodeError", {"node_id": TInt}), ("MissingChildError", {"child_id": TInt})):
        a = list(attrs)[0]
        add(X + name + ".__init__", Contract(
            X + name + ".__init__", params={"self": ("exc", name), a: TInt},
            ensures=[P(f"C04/{name}-carries-its-argument", f"self.{a} == {a}")], raises={}, check_wf=False))
    return out
