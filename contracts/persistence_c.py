"""C13-C16 - contracts of Persistence (load, save, start, stop, the saver closures) and of the Gateway context."""
from pyvc.core import *  # noqa: F403
from pyvc.spec import Contract, Clause, P, H, CANARY, LoopContract
from pyvc.core import LibObj, RaiseSig

PQ = "aiomysensors.persistence.Persistence."
GQ = "aiomysensors.gateway.Gateway."
PS = TObj("Persistence")
FS = ["ghost.disk", "ghost.other_disk", "ghost.file_exists", "ghost.saves"]
JSON_OBJECTS = ["field:dom[str,json]", "field:map[str,json]"]


def save_contract():
    """Persistence.save as used by its callers: one completed save, or a write error."""
    return Contract(PQ + "save", params={"self": PS}, modifies=FS,
                    ensures=[P("C16/save-completes", "g('ghost.saves') == old(g('ghost.saves')) + 1 and g('ghost.file_exists')")],
                    raises={"PersistenceWriteError": [H("save/failed", "g('ghost.saves') == old(g('ghost.saves'))")]}, check_wf=False)


def load_contract(with_path):
    params = {"self": PS, "path": TStr if with_path else ("const", None)}
    ct = Contract(PQ + "load", params=params, modifies=["self.nodes[...]"] + FS + JSON_OBJECTS,
                  ensures=[P("C14/missing-file-is-created", "implies(not old(g('ghost.file_exists')), g('ghost.saves') == old(g('ghost.saves')) + 1 and same_dict(self.nodes))"),
                           P("C14/empty-file-is-empty-registry", "implies(old(g('ghost.file_exists') and g('ghost.disk') == ''), same_dict(self.nodes))"),
                           CANARY("C14/canary-load-never-registers", "same_dict(self.nodes)")],
                  raises={"PersistenceReadError": [P("C14/read-error-only-for-an-existing-file", "old(g('ghost.file_exists'))")],
                          "PersistenceWriteError": [P("C14/write-error-only-when-creating", "not old(g('ghost.file_exists'))")]})
    ct.raises_only_id = "C14/raises-only"
    return ct


def load_loop():
    return LoopContract(PQ + "load", 0, invariant=[H("C14/nothing-registered-before-the-first-record", "implies(set_empty(done), same_dict(self.nodes))")], modifies=["self.nodes[...]"] + JSON_OBJECTS,
                        # A-JSON (tree shape): the records the hooks rewrite are the *values* of the top-level object, never that object itself
                        assume_iterated_untouched=True, calls="load")


SCHEMA_HARNESS = {
    "NodeSchema_load": "def NodeSchema_load(schema, data):\n    return schema.load(data)\n",
    "ChildSchema_load": "def ChildSchema_load(schema, data):\n    return schema.load(data)\n",
}
SHAPE_ERRORS = {"ValidationError": [H("load/invalid", "True")], "TypeError": [H("load/wrong-shape", "True")], "AttributeError": [H("load/wrong-shape", "True")]}


def schema_load_contract(cname):
    obj = {"NodeSchema": "Node", "ChildSchema": "Child"}[cname]
    ens = [H(f"{cname}/returns-a-new-object", "not old(alive(result))")]
    if cname == "NodeSchema":
        ens.append(P("C13+C14/loaded-node-id-in-range", "0 <= result.node_id and result.node_id <= 255"))
    ct = Contract(f"harness.{cname}_load", params={"schema": TObj(cname), "data": TJson}, returns=TObj(obj),
                  modifies=JSON_OBJECTS,  # the compatibility hooks rewrite legacy keys of the parsed JSON objects in place
                  fresh={"LOADED": {"type": TObj(obj), "is": "result"}},
                  ensures=ens, raises={k: list(v) for k, v in SHAPE_ERRORS.items()}, wf=False, check_wf=False)  # (says nothing about the registry invariant)
    ct.raises_only_id = "C14/raises-only"
    return ct


def units(world):
    out = []
    for hname in ("ChildSchema_load", "NodeSchema_load"):
        world.make_harness(hname, SCHEMA_HARNESS[hname], module="aiomysensors.model.node")
        ct = schema_load_contract(hname.split("_")[0])
        world.contracts[f"harness.{hname}"] = ct
        out.append((f"{hname.replace('_', '.')}(arbitrary JSON)", f"harness.{hname}", ct, None, ()))
    world.loops[(PQ + "load", 0)] = load_loop()
    world.contracts.setdefault(PQ + "save", save_contract())
    for wp in (False, True):
        out.append((f"{PQ}load[{'path' if wp else 'default-path'}]", PQ + "load", load_contract(wp), None, ()))
    return out


# ---------------------------------------------------------------------------- C13/C15/C16: save, start, stop, saver closures, gateway context

TC = "aiomysensors.transport.Transport.connect"
TD = "aiomysensors.transport.Transport.disconnect"
TASKS = ["ghost.tasks", "ghost.saver_pos"]


def save_own_contract():
    ct = Contract(PQ + "save", params={"self": PS}, modifies=FS + ["ghost.dumped_keys"],
                  ensures=[P("C16/save-completes", "g('ghost.saves') == old(g('ghost.saves')) + 1 and g('ghost.file_exists')"),
                           P("C13/save-dumps-every-node", "same_keys(dumped_keys(), self.nodes)"),
                           H("save/registry-untouched", "registry_unchanged()")],
                  raises={"PersistenceWriteError": [H("save/failed", "registry_unchanged()")]}, check_wf=False)
    ct.raises_only_id = "C16+C13/raises-only"
    return ct


def save_loop():
    return LoopContract(PQ + "save", 0,
                        invariant=[H("C13/dumped-so-far", "forall(lambda k: (k in data) == (k in done))")],
                        modifies=["data[...]"], calls="dump")


def start_contract():
    return Contract(PQ + "start", params={"self": PS}, modifies=["self._cancel_save"] + TASKS,
                    ensures=[P("C16/saver-started", "g('ghost.tasks') == old(g('ghost.tasks')) + 1 and not (self._cancel_save is None)")],
                    raises={}, check_wf=False)


def cancel_save_contract():
    ct = Contract(PQ + "start.cancel_save", params={"task": TOpaque("Task")}, modifies=TASKS,
                  ensures=[P("C16/cancel-leaves-no-task", "g('ghost.tasks') == old(g('ghost.tasks')) - 1")], raises={}, check_wf=False)
    ct.closure_params = ["task"]
    ct.raises_only_id = "C16/raises-only"
    return ct


def saver_contract(case):
    """save_on_schedule with a cancellation delivered at one of its await sites (C16/saver-cancellation-table)."""
    if case == "cancel@save":
        ens, rai = [P("C16/saver-cancellation-table", "False")], {"CancelledError": [P("C16/cancelled-save-leaves-no-task", "g('ghost.tasks') == old(g('ghost.tasks'))")]}
    elif case == "cancel@sleep":
        ens, rai = [P("C16/saver-cancellation-table", "True")], {"PersistenceWriteError": [H("saver/save-failed", "True")]}
    else:
        ens, rai = [H("saver/never-returns", "False")], {"PersistenceWriteError": [H("saver/save-failed", "True")]}
    ct = Contract(PQ + "start.save_on_schedule", params={"self": PS}, modifies=FS + ["ghost.slept", "ghost.dumped_keys", "ghost.tasks"], ensures=ens, raises=rai, check_wf=False)
    ct.closure_params = ["self"]
    ct.optional_outcomes = ("normal", "raise:PersistenceWriteError", "raise:CancelledError")
    ct.raises_only_id = "C16/saver-cancellation-table"
    return ct


def saver_loop():
    return LoopContract(PQ + "start.save_on_schedule", 0,
                        step=[P("C16/cadence", "g('ghost.saves') == old(g('ghost.saves')) + 1 and g('ghost.slept') <= 900 and g('ghost.slept') >= 0")])


def stop_contract(started):
    pre = [H("case/saver-started", "not (self._cancel_save is None)")] if started else [H("case/not-started", "self._cancel_save is None")]
    ct = Contract(PQ + "stop", params={"self": PS}, requires=pre, modifies=["self._cancel_save"] + TASKS + FS + ["ghost.dumped_keys"],
                  ensures=[P("C16/final-save", "g('ghost.saves') == old(g('ghost.saves')) + 1"),
                           P("C16/no-task-left", f"g('ghost.tasks') == old(g('ghost.tasks')) - {1 if started else 0} and self._cancel_save is None")],
                  raises={"PersistenceWriteError": [P("C16/no-task-left", f"g('ghost.tasks') == old(g('ghost.tasks')) - {1 if started else 0}")]}, check_wf=False)
    ct.raises_only_id = "C16/raises-only"
    return ct


def stop_callee_contract():
    """Persistence.stop for its callers (both cases in one contract)."""
    n = "(0 if old(self._cancel_save is None) else 1)"
    return Contract(PQ + "stop", params={"self": PS}, modifies=["self._cancel_save"] + TASKS + FS + ["ghost.dumped_keys"],
                    ensures=[P("C16/final-save", "g('ghost.saves') == old(g('ghost.saves')) + 1"),
                             P("C16/no-task-left", f"g('ghost.tasks') == old(g('ghost.tasks')) - {n} and self._cancel_save is None")],
                    raises={"PersistenceWriteError": [P("C16/no-task-left", f"g('ghost.tasks') == old(g('ghost.tasks')) - {n}")]}, check_wf=False)


def transport_contracts(w):
    w.contracts[TC] = Contract(TC, params={"self": TObj("Transport")}, modifies=["ghost.connected"],
                               ensures=[H("connect/ok", "g('ghost.connected')")], raises={"TransportError": [H("connect/failed", "True")]}, wf=False, check_wf=False)
    w.contracts[TD] = Contract(TD, params={"self": TObj("Transport")}, modifies=["ghost.connected"],
                               ensures=[H("disconnect/ok", "not g('ghost.connected')")], raises={"TransportError": [H("disconnect/failed", "True")]}, wf=False, check_wf=False)
    w.assumed.update({TC, TD})


def aenter_contract(with_persistence):
    pre = [H("case/persistence", "not (self.persistence is None) and self.persistence._cancel_save is None")] if with_persistence else [H("case/no-persistence", "self.persistence is None")]
    k = 1 if with_persistence else 0
    mods = ["ghost.connected"] + TASKS + FS + JSON_OBJECTS + ["ghost.dumped_keys"] + (["self.persistence._cancel_save", "self.nodes[...]"] if with_persistence else [])
    ct = Contract(GQ + "__aenter__", params={"self": TObj("Gateway")}, requires=pre + [H("wf/shared-registry", "implies(not (self.persistence is None), self.persistence.nodes is self.nodes)")],
                  modifies=mods,
                  ensures=[P("C16/entered", f"g('ghost.connected') and g('ghost.tasks') == old(g('ghost.tasks')) + {k} and result is self")],
                  raises={"TransportError": [P("C16/enter-fail-no-task", "g('ghost.tasks') == old(g('ghost.tasks'))")],
                          "PersistenceError": [P("C16/enter-fail-no-task", "g('ghost.tasks') == old(g('ghost.tasks'))")]},
                  returns="self", check_wf=False)
    ct.raises_only_id = "C16/raises-only"
    ct.optional_outcomes = ("raise:PersistenceError",) if not with_persistence else ()
    return ct


def aexit_contract(with_persistence, started):
    if with_persistence:
        pre = [H("case/persistence", "not (self.persistence is None)"),
               H("case/saver", "not (self.persistence._cancel_save is None)" if started else "self.persistence._cancel_save is None")]
    else:
        pre = [H("case/no-persistence", "self.persistence is None")]
    k = 1 if (with_persistence and started) else 0
    fin = f"g('ghost.tasks') == old(g('ghost.tasks')) - {k}" + (" and g('ghost.saves') == old(g('ghost.saves')) + 1" if with_persistence else "")
    mods = ["ghost.connected"] + TASKS + FS + ["ghost.dumped_keys"] + (["self.persistence._cancel_save"] if with_persistence else [])
    ct = Contract(GQ + "__aexit__", params={"self": TObj("Gateway"), "exc_type": ("const", None), "exc_value": ("const", None), "traceback": ("const", None)},
                  requires=pre, modifies=mods,
                  ensures=[P("C16/exit-always", f"not g('ghost.connected') and {fin}")],
                  raises={"TransportError": [P("C16/exit-when-disconnect-fails", fin)],
                          "PersistenceWriteError": [P("C16/no-task-left", f"g('ghost.tasks') == old(g('ghost.tasks')) - {k}")]}, check_wf=False)
    ct.raises_only_id = "C16/raises-only"
    ct.optional_outcomes = ("raise:PersistenceWriteError",) if not with_persistence else ()
    return ct


def c16_units(world):
    transport_contracts(world)
    world.loops[(PQ + "save", 0)] = save_loop()
    world.loops[(PQ + "start.save_on_schedule", 0)] = saver_loop()
    world.loops[(PQ + "load", 0)] = load_loop()
    sos = world.nested_function(PQ + "start", "save_on_schedule")
    cs = world.nested_function(PQ + "start", "cancel_save")
    world.contracts[PQ + "save"] = save_contract()
    world.contracts[PQ + "start"] = start_contract()
    world.contracts[PQ + "stop"] = stop_callee_contract()
    world.contracts[PQ + "start.cancel_save"] = cancel_save_contract()
    world.contracts.setdefault(PQ + "load", load_contract(False))

    def absorb(I):
        I.task_absorbs_cancel_when_sleeping = True

    def cancel_at(site):
        def setup(I):
            st = {"n": 0}

            def hook(I2, node, fr):
                if fr.func is not None and fr.func.qualname.endswith("save_on_schedule"):
                    st["n"] += 1
                    if st["n"] == site:
                        aw = getattr(I2, "awaiting", None)
                        if isinstance(aw, LibObj) and aw.kind == "shielded":
                            # the shielded inner coroutine is not cancelled: it stays behind as a running task
                            I2.c.heap.set("ghost.tasks", I2.c.heap.get("ghost.tasks", IntS) + 1)
                        raise RaiseSig(I2.make_exc("CancelledError", site=node))
            I.await_hook = hook
        return setup
    out = [
        (PQ + "save", PQ + "save", save_own_contract(), None, (), None),
        (PQ + "start", PQ + "start", start_contract(), None, (), None),
        (PQ + "start.cancel_save", PQ + "start.cancel_save", cancel_save_contract(), None, (), absorb),
        (PQ + "start.save_on_schedule[cancel@save]", sos.qualname, saver_contract("cancel@save"), None, (), cancel_at(1)),
        (PQ + "start.save_on_schedule[cancel@sleep]", sos.qualname, saver_contract("cancel@sleep"), None, (), cancel_at(2)),
        (PQ + "start.save_on_schedule[running]", sos.qualname, saver_contract("running"), None, (), None),
        (PQ + "stop[started]", PQ + "stop", stop_contract(True), None, (), absorb),
        (PQ + "stop[not-started]", PQ + "stop", stop_contract(False), None, (), absorb),
        (GQ + "__aenter__[persistence]", GQ + "__aenter__", aenter_contract(True), None, (), absorb),
        (GQ + "__aenter__[no-persistence]", GQ + "__aenter__", aenter_contract(False), None, (), absorb),
        (GQ + "__aexit__[persistence,saver-started]", GQ + "__aexit__", aexit_contract(True, True), None, (), absorb),
        (GQ + "__aexit__[persistence,not-started]", GQ + "__aexit__", aexit_contract(True, False), None, (), absorb),
        (GQ + "__aexit__[no-persistence]", GQ + "__aexit__", aexit_contract(False, False), None, (), absorb),
    ]
    return out
