"""C13-C16 - contracts of Persistence (load, save, start, stop, the saver closures) and of the Gateway context."""
from pyvc.core import *  # noqa: F403
from pyvc.spec import Contract, Clause, P, H, CANARY, LoopContract

PQ = "aiomysensors.persistence.Persistence."
GQ = "aiomysensors.gateway.Gateway."
PS = TObj("Persistence")
FS = ["ghost.disk", "ghost.file_exists", "ghost.saves"]
JSON_OBJECTS = ["field:dom[str,json]", "field:map[str,json]"]


def save_contract():
    """Persistence.save as used by its callers: one completed save, or a write error."""
    return Contract(PQ + "save", params={"self": PS}, modifies=FS,
                    ensures=[P("C16/save-completes", "g('ghost.saves') == old(g('ghost.saves')) + 1 and g('ghost.file_exists')")],
                    raises={"PersistenceWriteError": [H("save/failed", "g('ghost.saves') == old(g('ghost.saves'))")]}, check_wf=False)


def load_contract(with_path):
    params = {"self": PS, "path": TStr if with_path else ("const", None)}
    ct = Contract(PQ + "load", params=params, modifies=["self.nodes[...]"] + FS + JSON_OBJECTS,
                  ensures=[P("C14/missing-file-is-created", "implies(not old(g('ghost.file_exists')), g('ghost.saves') == old(g('ghost.saves')) + 1 and same_dict(self.nodes))"),
                           P("C14/empty-file-is-empty-registry", "implies(old(g('ghost.file_exists') and g('ghost.disk') == ''), same_dict(self.nodes))"),
                           CANARY("C14/canary-load-never-registers", "same_dict(self.nodes)")],
                  raises={"PersistenceReadError": [P("C14/read-error-only-for-an-existing-file", "old(g('ghost.file_exists'))")],
                          "PersistenceWriteError": [P("C14/write-error-only-when-creating", "not old(g('ghost.file_exists'))")]})
    ct.raises_only_id = "C14/raises-only"
    return ct


def load_loop():
    return LoopContract(PQ + "load", 0, invariant=[H("C14/nothing-registered-before-the-first-record", "implies(set_empty(done), same_dict(self.nodes))")], modifies=["self.nodes[...]"] + JSON_OBJECTS,
                        # A-JSON (tree shape): the records the hooks rewrite are the *values* of the top-level object, never that object itself
                        assume_iterated_untouched=True)


SCHEMA_HARNESS = {
    "NodeSchema_load": "def NodeSchema_load(schema, data):\n    return schema.load(data)\n",
    "ChildSchema_load": "def ChildSchema_load(schema, data):\n    return schema.load(data)\n",
}
SHAPE_ERRORS = {"ValidationError": [H("load/invalid", "True")], "TypeError": [H("load/wrong-shape", "True")], "AttributeError": [H("load/wrong-shape", "True")]}


def schema_load_contract(cname):
    obj = {"NodeSchema": "Node", "ChildSchema": "Child"}[cname]
    ens = [H(f"{cname}/returns-a-new-object", "not old(alive(result))")]
    if cname == "NodeSchema":
        ens.append(P("C13+C14/loaded-node-id-in-range", "0 <= result.node_id and result.node_id <= 255"))
    ct = Contract(f"harness.{cname}_load", params={"schema": TObj(cname), "data": TJson}, returns=TObj(obj),
                  modifies=JSON_OBJECTS,  # the compatibility hooks rewrite legacy keys of the parsed JSON objects in place
                  fresh={"LOADED": {"type": TObj(obj), "is": "result"}},
                  ensures=ens, raises={k: list(v) for k, v in SHAPE_ERRORS.items()}, check_wf=False)
    ct.raises_only_id = "C14/raises-only"
    return ct


def units(world):
    out = []
    for hname in ("ChildSchema_load", "NodeSchema_load"):
        world.make_harness(hname, SCHEMA_HARNESS[hname], module="aiomysensors.model.node")
        ct = schema_load_contract(hname.split("_")[0])
        world.contracts[f"harness.{hname}"] = ct
        out.append((f"{hname.replace('_', '.')}(arbitrary JSON)", f"harness.{hname}", ct, None, ()))
    world.loops[(PQ + "load", 0)] = load_loop()
    world.contracts.setdefault(PQ + "save", save_contract())
    for wp in (False, True):
        out.append((f"{PQ}load[{'path' if wp else 'default-path'}]", PQ + "load", load_contract(wp), None, ()))
    return out
