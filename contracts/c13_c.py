"""C13 - persistence round trip: attribute mapping of the schemas, legacy layout hooks, accept domains."""
import z3

from pyvc.core import *  # noqa: F403
from pyvc.core import LibObj
from pyvc.spec import Contract, Clause, P, H, CANARY
from pyvc.mm import schema_fields

NODE_ATTRS = ["node_id", "node_type", "protocol_version", "children", "sketch_name", "sketch_version", "battery_level", "heartbeat", "sleeping"]
CHILD_ATTRS = ["child_id", "child_type", "description", "values"]

HARNESS = {
    "make_node_all": ("def make_node_all(schema, node_id, node_type, protocol_version, children, sketch_name, sketch_version, battery_level, heartbeat, sleeping):\n"
                      "    return schema.make_node({'node_id': node_id, 'node_type': node_type, 'protocol_version': protocol_version, 'children': children,\n"
                      "                             'sketch_name': sketch_name, 'sketch_version': sketch_version, 'battery_level': battery_level,\n"
                      "                             'heartbeat': heartbeat, 'sleeping': sleeping})\n"),
    "make_child_all": ("def make_child_all(schema, child_id, child_type, description, values):\n"
                       "    return schema.make_child({'child_id': child_id, 'child_type': child_type, 'description': description, 'values': values})\n"),
    "legacy_node": ("def legacy_node(schema, sensor_id, node_type, protocol_version, battery_level):\n"
                    "    a = schema.handle_compatibility({'sensor_id': sensor_id, 'type': node_type, 'protocol_version': protocol_version,\n"
                    "                                     'battery_level': battery_level, 'sketch_name': None, 'sketch_version': None})\n"
                    "    b = schema.handle_compatibility({'sensor_id': sensor_id, 'type': None, 'protocol_version': protocol_version})\n"
                    "    return (a, b)\n"),
    "legacy_child": ("def legacy_child(schema, cid, ctype, description, v):\n"
                     "    return schema.handle_compatibility({'id': cid, 'type': ctype, 'description': description, 'values': {'47': v, '0': '20.5'}})\n"),
}


def contracts():
    NS, CS = TObj("NodeSchema"), TObj("ChildSchema")
    mk_node = Contract("harness.make_node_all",
                       params={"schema": NS, "node_id": TInt, "node_type": TInt, "protocol_version": TStr, "children": TDict(TInt, TObj("Child")),
                               "sketch_name": TStr, "sketch_version": TStr, "battery_level": TInt, "heartbeat": TInt, "sleeping": TBool},
                       requires=[H("nonempty-children", "not empty(children)")], returns=TObj("Node"),
                       ensures=[P("C13/every-node-attribute-restored",
                                  "result.node_id == node_id and result.node_type == node_type and result.protocol_version == protocol_version and "
                                  "result.children is children and result.sketch_name == sketch_name and result.sketch_version == sketch_version and "
                                  "result.battery_level == battery_level and result.heartbeat == heartbeat and result.sleeping == sleeping"),
                                CANARY("C13/canary-battery-dropped", "result.battery_level == 0")], raises={}, check_wf=False)
    mk_child = Contract("harness.make_child_all",
                        params={"schema": CS, "child_id": TInt, "child_type": TInt, "description": TStr, "values": TDict(TInt, TStr)},
                        requires=[H("nonempty-values", "not empty(values)")], returns=TObj("Child"),
                        ensures=[P("C13/every-child-attribute-restored", "result.child_id == child_id and result.child_type == child_type and "
                                                                         "result.description == description and result.values is values")],
                        raises={}, check_wf=False)
    leg_node = Contract("harness.legacy_node", params={"schema": NS, "sensor_id": TInt, "node_type": TInt, "protocol_version": TStr, "battery_level": TInt},
                        ensures=[P("C13/legacy-node", "result[0]['node_id'] == sensor_id and result[0]['node_type'] == node_type and "
                                                      "result[0]['protocol_version'] == protocol_version and result[0]['battery_level'] == battery_level and "
                                                      "result[0]['sketch_name'] == '' and result[0]['sketch_version'] == '' and "
                                                      "not ('sensor_id' in result[0]) and not ('type' in result[0])"),
                                 P("C13/legacy-node-null-type-is-gateway", "result[1]['node_type'] == 18 and result[1]['node_id'] == sensor_id")],
                        raises={}, check_wf=False)
    leg_child = Contract("harness.legacy_child", params={"schema": CS, "cid": TInt, "ctype": TInt, "description": TStr, "v": TStr},
                         ensures=[P("C13/legacy-child", "result['child_id'] == cid and result['child_type'] == ctype and result['description'] == description "
                                                        "and not ('id' in result) and not ('type' in result)"),
                                  # the hook only renames keys: every stored value - the empty string included - reaches the schema's own fields
                                  P("C13/legacy-child-keeps-values", "'47' in result['values'] and result['values']['47'] == v and result['values']['0'] == '20.5'")],
                         raises={}, check_wf=False)
    return {"make_node_all": mk_node, "make_child_all": mk_child, "legacy_node": leg_node, "legacy_child": leg_child}


def units(world):
    out = []
    cts = contracts()
    for name, src in HARNESS.items():
        f = world.make_harness(name, src, module="aiomysensors.model.node")
        ct = cts[name]
        ct.raises_only_id = "C13/raises-only"
        out.append((f"schema.{name}", f.qualname, ct, None, ()))
    return out


# reach invariant of the registry (what handlers, constructors and a validated load can put there), per persisted scalar field
REACH = {
    ("NodeSchema", "node_id"): (0, 255, "heap invariant WF: registry keys are 0..255 and node.node_id == key"),
    ("NodeSchema", "battery_level"): (0, 100, "clause C13/battery-in-schema-range of the battery handler; constructors default to 0; a loaded value passed Range(0,100)"),
}


def accept_obligations(world):
    """For every declared scalar field: reach domain (REACH, else all ints / strings) is inside the field's accept domain (its validators)."""
    out = []
    for cname, attrs in (("NodeSchema", NODE_ATTRS), ("ChildSchema", CHILD_ATTRS)):
        cls = world.classes[cname]
        decl = dict(schema_fields(cls))
        for a in attrs:
            ok = a in decl
            out.append({"name": f"C13/field-declared[{cname}.{a}]", "tag": "property", "status": "unsat" if ok else "sat", "secs": 0.0,
                        "backend": "structural", "unit": cname, "path": [f"declared fields: {sorted(decl)}"], "model": None})
            if not ok:
                continue
            f = decl[a]
            v = z3.Int("v")
            lo, hi, why = REACH.get((cname, a), (None, None, "any value of the field's type"))
            reach = z3.And(*( [v >= lo] if lo is not None else []), *([v <= hi] if hi is not None else [])) if lo is not None or hi is not None else z3.BoolVal(True)
            acc, undecidable = [], None
            sv = z3.String("sv")  # a string field's value: every string is reachable (descriptions, sketch names, versions are stored as received)
            for vd in f.validators:
                if isinstance(vd, LibObj) and vd.kind == "mm_range":
                    if vd.min is not None:
                        acc.append(v >= vd.min)
                    if vd.max is not None:
                        acc.append(v <= vd.max)
                elif isinstance(vd, LibObj) and vd.kind == "mm_oneof":
                    acc.append(z3.Or(*[v == c for c in vd.choices if isinstance(c, int)]))
                elif isinstance(vd, LibObj) and vd.kind == "mm_length" and f.ftype in ("Str", "String"):
                    n = z3.Length(sv)
                    acc += [n == vd.equal] if vd.equal is not None else []
                    acc += [n >= vd.min] if vd.min is not None else []
                    acc += [n <= vd.max] if vd.max is not None else []
                else:
                    undecidable = f"validator {vd!r} has no accept-domain model"
            s = z3.Solver()
            s.add(reach, z3.Not(z3.And(*acc) if acc else z3.BoolVal(True)))
            r = s.check() if undecidable is None else z3.unknown
            model = None
            if r == z3.sat:
                m = s.model()
                model = {"value": m[v].as_long()} if m[v] is not None else ({"value": m[sv].as_string()} if m[sv] is not None else None)
            out.append({"name": f"C13/accept[{cname}.{a}]", "tag": "property", "status": "unsat" if r == z3.unsat else ("sat" if r == z3.sat else "unknown"), "secs": 0.0,
                        "backend": "z3", "unit": cname, "path": [f"reach: {why}"] + ([undecidable] if undecidable else []), "model": model})
    return out
