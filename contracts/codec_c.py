"""C01 / C02 — contracts of the wire codec: MessageSchema.load / dump with the repository's hooks and validators.

The units are sidecar harness functions that only call `schema.load` / `schema.dump`; marshmallow's loop is the
assumed contract A-MM (pyvc/mmalgo.py), and to_dict, to_string, make_message, Message.__init__, validate_child_id,
validate_command, validate_message_type, CommandField.validate_command and both _deserialize methods are executed
from the parsed source (inlined: their bodies are their contracts).
"""
from pyvc.core import *  # noqa: F403
from pyvc.spec import Contract, P, H, CANARY

SCHEMA = TObj("MessageSchema")
MSG = TObj("Message")

F = [f"nth(s, ';', {i})" for i in range(5)]
ACCEPT = ("nfields(s, ';') >= 6 and " + " and ".join(f"intlit({f})" for f in F) +
          " and 0 <= fn and fn <= 255 and 0 <= fc and fc <= 255 and 0 <= fk and fk <= 4 and (fa == 0 or fa == 1)"
          " and cross_ok(fc, fk, ft)")
LINE_LETS = {"s": "rstrip(line)", "fn": f"intval({F[0]})", "fc": f"intval({F[1]})", "fk": f"intval({F[2]})",
             "fa": f"intval({F[3]})", "ft": f"intval({F[4]})"}


def schema_requires(vidx):
    return [H("wf/schema-protocol", f"not (schema.ctx_protocol is None) and proto_index(schema.ctx_protocol) == {vidx}")]


def load_contract(vidx):
    return Contract(
        "harness.load_line", params={"schema": SCHEMA, "line": TStr}, requires=schema_requires(vidx), pre_lets=LINE_LETS,
        returns=MSG,
        ensures=[
            P("C02/accepted-only-if-wellformed", ACCEPT),
            P("C02/literal-decode", "result.node_id == fn and result.child_id == fc and result.command == fk "
                                    "and result.ack == fa and result.message_type == ft"),
            P("C01+C02/payload-as-spelled", "result.payload == rest(s, ';', 5)"),
            CANARY("C02/canary-node-zero", "result.node_id == 0"),
        ],
        raises={"ValidationError": [P("C02/rejected-only-if-malformed", f"not ({ACCEPT})")]},
        check_wf=False)


WF_MSG = ("0 <= m.node_id and m.node_id <= 255 and 0 <= m.child_id and m.child_id <= 255 and 0 <= m.command and m.command <= 4 "
          "and (m.ack == 0 or m.ack == 1) and cross_ok(m.child_id, m.command, m.message_type)")


def dump_contract(vidx):
    return Contract(
        "harness.dump_message", params={"schema": SCHEMA, "m": MSG}, requires=schema_requires(vidx), returns=TStr,
        ensures=[P("C01/dump-shape", "result == enc(m)"), CANARY("C01/canary-empty-line", "result == '\\n'")],
        raises={}, check_wf=False)


def roundtrip_contract(vidx):
    return Contract(
        "harness.roundtrip", params={"schema": SCHEMA, "m": MSG},
        requires=schema_requires(vidx) + [H("C01/well-formed-message", WF_MSG),
                                          H("C01/clean-payload", "rstrip(m.payload) == m.payload")],
        returns=MSG,
        ensures=[
            P("C01/roundtrip-fields", "result.node_id == m.node_id and result.child_id == m.child_id and result.command == m.command "
                                      "and result.ack == m.ack and result.message_type == m.message_type"),
            P("C01/roundtrip-payload", "result.payload == m.payload"),
        ],
        raises={}, check_wf=False)


def reencode_contract(vidx):
    canon = " and ".join(f"{f} == dec(intval({f}))" for f in F)
    return Contract(
        "harness.reencode", params={"schema": SCHEMA, "line": TStr}, pre_lets=LINE_LETS,
        requires=schema_requires(vidx) + [H("C01/accepted-line", ACCEPT), H("C01/plain-decimal-fields", canon)],
        returns=TStr,
        ensures=[P("C01/reencode", "result == rstrip(line) + '\\n'")],
        raises={}, check_wf=False)


HARNESS = {
    "load_line": "def load_line(schema, line):\n    return schema.load(line)\n",
    "dump_message": "def dump_message(schema, m):\n    return schema.dump(m)\n",
    "roundtrip": "def roundtrip(schema, m):\n    return schema.load(schema.dump(m))\n",
    "reencode": "def reencode(schema, line):\n    return schema.dump(schema.load(line))\n",
}


def units(world, which):
    out = []
    for name in which:
        f = world.make_harness(name, HARNESS[name], module="aiomysensors.model.message")
        for vidx, tag in enumerate(["14", "15", "20", "21", "22"]):
            ct = {"load_line": load_contract, "dump_message": dump_contract, "roundtrip": roundtrip_contract, "reencode": reencode_contract}[name](vidx)
            # encoding a well-formed message, decoding its line, re-encoding an accepted line: an exception there is C01's failure
            # ("every message the codec can encode decodes back to an equal message")
            ct.raises_only_id = "C02+C03/raises-only" if name == "load_line" else "C01+C02+C03/raises-only"
            out.append((f"MessageSchema.{name}[{tag}]", f.qualname, ct, None, ()))
    return out
