"""C18 - contracts of the MQTT transport (topic <-> line mapping, subscriptions, receive queue, receive task)."""
from pyvc.core import *  # noqa: F403
from pyvc.spec import Contract, Clause, P, H, CANARY

MT = "aiomysensors.transport.mqtt.MQTTTransport."
MC = "aiomysensors.transport.mqtt.MQTTClient."
TR = TObj("MQTTTransport")
CL = TObj("MQTTClient")
QG = ["ghost.qlen", "ghost.qhead", "ghost.qat"]
# class invariant of the transport, established by __init__: its receive queue is unbounded (put_nowait cannot raise QueueFull)
Q_UNBOUNDED = H("wf/queue-unbounded", "g('ghost.qmax') <= 0")
PG = ["ghost.plen", "ghost.ptopic", "ghost.ppayload", "ghost.pqos"]
SG = ["ghost.slen", "ghost.stopic", "ghost.sqos"]
SUFFIX = "dec(n) + '/' + dec(c) + '/' + dec(k) + '/' + dec(a) + '/' + dec(t)"
WF = "0 <= n and n <= 255 and 0 <= c and c <= 255 and 0 <= k and k <= 4 and (a == 0 or a == 1)"
INTS = {"n": TInt, "c": TInt, "k": TInt, "a": TInt, "t": TInt}


HARNESS = {
    "mqtt_topic_of": "def mqtt_topic_of(transport, n, c, k, a, t, p):\n    return transport._parse_message_to_mqtt(f'{n};{c};{k};{a};{t};{p}\\n')\n",
    "mqtt_line_of": "def mqtt_line_of(prefix, n, c, k, a, t, payload):\n    return MQTTTransport._parse_mqtt_to_message(f'{prefix}/{n}/{c}/{k}/{a}/{t}', payload)\n",
    "mqtt_write": "async def mqtt_write(transport, n, c, k, a, t, p):\n    await transport.write(f'{n};{c};{k};{a};{t};{p}\\n')\n",
    "mqtt_echo": ("def mqtt_echo(transport, n, c, k, a, t, p):\n"
                  "    sent = transport._parse_message_to_mqtt(f'{n};{c};{k};{a};{t};{p}\\n')\n"
                  "    return MQTTTransport._parse_mqtt_to_message(f'{transport.in_prefix}/{n}/{c}/{k}/{a}/{t}', sent[1])\n"),
}


def msg_params(first):
    params = dict(first)
    params.update(INTS)
    return params


def to_mqtt_contract():
    """_parse_message_to_mqtt(enc(m)): topic, payload and qos as the property states."""
    params = msg_params({"transport": CL})
    params["p"] = TStr
    return Contract("harness.mqtt_topic_of", params=params,
                    requires=[H("wf-fields", WF), H("clean-payload", "rstrip(p) == p")],
                    ensures=[P("C18/write-topic", f"result[0] == transport.out_prefix + '/' + {SUFFIX}"),
                             P("C18/write-payload", "result[1] == p"),
                             P("C18/write-qos", "result[2] == a"),
                             CANARY("C18/canary-empty-topic", "result[0] == ''")],
                    raises={}, check_wf=False, returns=None)


def to_line_contract():
    params = msg_params({"prefix": TStr})
    params["payload"] = TStr
    return Contract("harness.mqtt_line_of", params=params,
                    ensures=[P("C18/read-line", "result == dec(n) + ';' + dec(c) + ';' + dec(k) + ';' + dec(a) + ';' + dec(t) + ';' + payload"),
                             CANARY("C18/canary-line-is-payload", "result == payload")],
                    raises={}, check_wf=False, returns=TStr)


def echo_contract():
    params = msg_params({"transport": CL})
    params["p"] = TStr
    return Contract("harness.mqtt_echo", params=params,
                    requires=[H("wf-fields", WF), H("clean-payload", "rstrip(p) == p")],
                    ensures=[P("C18/echo-roundtrip", "result + '\\n' == line(n, c, k, a, t, p)")],
                    raises={}, check_wf=False, returns=TStr)


def write_contract():
    params = msg_params({"transport": CL})
    params["p"] = TStr
    return Contract("harness.mqtt_write", params=params,
                    requires=[H("wf-fields", WF), H("clean-payload", "rstrip(p) == p"), H("connected", "not (transport._client is None)")],
                    modifies=PG,
                    ensures=[P("C18/publishes-once", "g('ghost.plen') == old(g('ghost.plen')) + 1"),
                             P("C18/write-topic", f"g('ghost.ptopic', old(g('ghost.plen'))) == transport.out_prefix + '/' + {SUFFIX}"),
                             P("C18/write-payload", "g('ghost.ppayload', old(g('ghost.plen'))) == p"),
                             P("C18/write-qos", "g('ghost.pqos', old(g('ghost.plen'))) == a")],
                    raises={"TransportError": [P("C18/failed-publish-not-counted", "g('ghost.plen') == old(g('ghost.plen'))")]}, check_wf=False)


def connect_contract():
    topics = " and ".join(f"g('ghost.stopic', s0 + {i}) == self.in_prefix + '/+/+/{i}/+/+'" for i in range(5))
    return Contract(MT + "connect", params={"self": CL},
                    requires=[H("fresh-client", "self._client is None and self._incoming_task is None")],
                    pre_lets={"s0": "g('ghost.slen')"},
                    modifies=["self._client", "self._incoming_task", "ghost.tasks"] + SG,
                    ensures=[P("C18/subscriptions", f"g('ghost.slen') == s0 + 5 and {topics}"),
                             P("C18/receive-task-started", "g('ghost.tasks') == old(g('ghost.tasks')) + 1 and not (self._incoming_task is None)")],
                    raises={"TransportError": [H("C18/connect-failed", "True"),
                                               # C16: "if connecting fails the error propagates and no background task is left behind"
                                               P("C16/failed-connect-leaves-no-task", "g('ghost.tasks') == old(g('ghost.tasks'))")]}, check_wf=False)


def disconnect_contract():
    return Contract(MT + "disconnect", params={"self": CL},
                    requires=[H("connected", "not (self._client is None) and not (self._incoming_task is None)")],
                    modifies=["self._client", "self._incoming_task", "ghost.tasks"],
                    ensures=[P("C18/disconnect-no-raise", "self._client is None and self._incoming_task is None"),
                             P("C16+C18/no-task-left", "g('ghost.tasks') == old(g('ghost.tasks')) - 1")],
                    raises={}, check_wf=False)


def handle_incoming_contract():
    ct = Contract(MC + "_handle_incoming", params={"self": CL},
                  requires=[H("connected", "not (self._client is None)"), Q_UNBOUNDED],
                  modifies=QG + ["ghost.broker_errors"],
                  ensures=[P("C18/receive-task-never-silent", "g('ghost.qlen') == old(g('ghost.qlen')) + 1 and "
                                                              "g('ghost.qat', old(g('ghost.qlen'))).message_type == 0 and "
                                                              "is_transport_error(g('ghost.qat', old(g('ghost.qlen'))).error)"),
                           # "every broker message ... is received": a payload that cannot be decoded is reported and reception goes on;
                           # the task returns only when the broker's message iterator itself has failed
                           P("C18/reception-ends-only-on-a-broker-error", "g('ghost.broker_errors') == old(g('ghost.broker_errors')) + 1")],
                  raises={"CancelledError": [H("C18/cancelled", "True")]}, check_wf=False)
    ct.raises_only_id = "C18/receive-task-never-silent"
    return ct


def receive_contract():
    return Contract(MT + "_receive", params={"self": CL, "topic": TStr, "payload": TStr}, modifies=QG, requires=[Q_UNBOUNDED],
                    ensures=[P("C18/fifo-once", "g('ghost.qlen') == old(g('ghost.qlen')) + 1 and g('ghost.qhead') == old(g('ghost.qhead')) and "
                                                "g('ghost.qat', old(g('ghost.qlen'))).message_type == 1")],
                    raises={}, check_wf=False)


def read_contract():
    ct = Contract(MT + "read", params={"self": CL},
                  requires=[H("queued-messages-are-well-formed",
                              "implies(g('ghost.qat', g('ghost.qhead')).message_type == 1, not (g('ghost.qat', g('ghost.qhead')).message is None)) and "
                              "implies(g('ghost.qat', g('ghost.qhead')).message_type == 0, not (g('ghost.qat', g('ghost.qhead')).error is None) and "
                              "is_transport_error(g('ghost.qat', g('ghost.qhead')).error))")],
                  modifies=QG, returns=TStr,
                  ensures=[P("C18/fifo-once", "g('ghost.qhead') == old(g('ghost.qhead')) + 1 and g('ghost.qlen') == old(g('ghost.qlen')) and "
                                              "old(g('ghost.qat', g('ghost.qhead')).message_type == 1) and result == old(g('ghost.qat', g('ghost.qhead')).message)")],
                  raises={"TransportError": [P("C18/fifo-once", "g('ghost.qhead') == old(g('ghost.qhead')) + 1 and "
                                                                "old(g('ghost.qat', g('ghost.qhead')).message_type == 0)")]}, check_wf=False)
    ct.raises_only_id = "C18+C03/raises-only"
    return ct


def init_contract(qual, cls):
    params = {"self": cls, "in_prefix": TStr, "out_prefix": TStr}
    if cls is CL:
        params.update({"host": TStr, "port": TInt})
    return Contract(qual + "__init__", params=params, modifies=["field:*", "ghost.qmax"],
                    ensures=[H("wf/queue-unbounded", "g('ghost.qmax') <= 0")], raises={}, check_wf=False)


def units(world):
    out = []
    def add(name, ct):
        if ct.raises_only_id == "C03/raises-only":
            ct.raises_only_id = "C18+C03/raises-only"
        out.append((ct.qualname + name, ct.qualname, ct, None, ()))
    for hname, ctf in (("mqtt_topic_of", to_mqtt_contract), ("mqtt_line_of", to_line_contract), ("mqtt_write", write_contract), ("mqtt_echo", echo_contract)):
        world.make_harness(hname, HARNESS[hname], module="aiomysensors.transport.mqtt")
        ct = ctf()
        ct.raises_only_id = "C18+C03/raises-only"
        add("", ct)
    add("", init_contract(MT, TR))
    add("", init_contract(MC, CL))
    add("", connect_contract())
    add("", disconnect_contract())
    add("", handle_incoming_contract())
    add("", receive_contract())
    add("", read_contract())
    return out
