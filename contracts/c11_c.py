"""C11 — node id allocation: contract of IncomingMessageHandler.handle_i_id_request (DESIGN.md §4, §8 C11)."""
from pyvc.core import *  # noqa: F403
from pyvc.spec import Contract, P, H, CANARY
from .base_c import GW, MSG, BUFT, GHOST_LOG

Q = "aiomysensors.model.protocol.protocol_14.IncomingMessageHandler.handle_i_id_request"


def contract():
    return Contract(
        Q,
        params={"cls": "cls", "gateway": GW, "message": MSG, "message_buffer": BUFT},
        requires=[H("dispatched-as-internal", "message.command == 3"),
                  H("wf/schema-follows-protocol", "gateway._message_schema.ctx_protocol == gateway._protocol"),
                  H("wf/buffer-dicts-distinct", "not (gateway._message_buffer.internal_messages is gateway._message_buffer.set_messages)")],
        # the id handed out: whatever key this path registered (independent of the allocation strategy)
        witness={"new_id": (TInt, "the_stored_key(gateway.nodes)")},
        fresh={"new_node": {"type": TObj("Node"), "is": "gateway.nodes[new_id]"},
               "new_children": {"type": TDict(TInt, TObj("Child")), "is": "gateway.nodes[new_id].children"}},
        returns="message",
        modifies=["gateway.nodes[...]"] + GHOST_LOG + ["ghost.wcnt"],
        ensures=[
            P("C11/range", "1 <= new_id and new_id <= 254"),
            P("C11/fresh", "not old(new_id in gateway.nodes)"),
            P("C11/registered", "dom_eq_plus(gateway.nodes, new_id)"),
            P("C11/registered-before-write", "new_id in regs_at(old(wlen()), gateway.nodes)"),
            P("C11/response-shape", "appended(line(message.node_id, message.child_id, 3, 0, 4, dec(new_id)))"),
            P("C11/result-is-message", "result is message"),
            H("C11/others-untouched", "dict_only_at(gateway.nodes, new_id)"),
            H("C11/placeholder", "new_node.node_id == new_id and new_node.node_type == 17 and new_node.protocol_version == '1.4' "
                                 "and empty(new_children) and new_node.battery_level == 0 and new_node.heartbeat == 0 "
                                 "and new_node.sketch_name == '' and new_node.sketch_version == '' "
                                 "and not new_node.sleeping and not new_node.reboot"),
            CANARY("C11/canary-id-is-1", "new_id == 1"),
        ],
        raises={
            "TooManyNodesError": [
                P("C11/fail-registry-unchanged", "same_dict(gateway.nodes)"),
                P("C11/fail-nothing-written", "log_unchanged()"),
                P("C11/fail-only-when-full", "not old(empty(gateway.nodes)) and old(max_key(gateway.nodes)) >= 254"),
            ],
            "TransportError": [
                H("C11/write-failed-not-logged", "log_unchanged()"),
                H("C11/write-failed-still-registered", "dom_eq_plus(gateway.nodes, new_id) and dict_only_at(gateway.nodes, new_id) "
                                                       "and 1 <= new_id and new_id <= 254 and not old(new_id in gateway.nodes)"),
            ],
        },
    )


def register(w):
    w.contracts[Q] = contract()
