"""Static types of instance fields (assumption A-TYPES) and the global heap invariant WF.

FIELDS gives, per repository class, the declared type of every instance attribute
the code under contract reads or writes.  They restate the annotations in the
source (`self.nodes: dict[int, Node]`, dataclass fields, constructor parameters).
"""
import z3

from pyvc.core import (TInt, TBool, TStr, TKey3, TProto, TBytes, TJson, TObj, TDict, TOpt, TEnum, TOpaque,
                       arr, Ref, IntS, BoolS, StrS, k3n, k3c, k3t)

NODES = TDict(TInt, TObj("Node"))
BUF = TDict(TKey3, TObj("Message"))

FIELDS = {
    "Gateway": {
        "config": TObj("Config"),
        "nodes": NODES,
        "persistence": TOpt(TObj("Persistence")),
        "transport": TObj("Transport"),
        "_message_schema": TObj("MessageSchema"),
        "_protocol": TProto,
        "_protocol_version": TOpt(TStr),
        "_message_buffer": TObj("MessageBuffer"),
    },
    "Config": {"metric": TBool, "persistence_file": TOpt(TStr)},
    "MessageBuffer": {"internal_messages": BUF, "set_messages": BUF},
    "Message": {"node_id": TInt, "child_id": TInt, "command": TInt, "ack": TInt, "message_type": TInt, "payload": TStr},
    "Node": {
        "node_id": TInt, "node_type": TInt, "protocol_version": TStr,
        "children": TDict(TInt, TObj("Child")), "sketch_name": TStr, "sketch_version": TStr,
        "battery_level": TInt, "heartbeat": TInt, "reboot": TBool, "sleeping": TBool,
    },
    "Child": {"child_id": TInt, "child_type": TInt, "description": TStr, "values": TDict(TInt, TStr)},
    "Persistence": {"nodes": NODES, "path": TStr, "_cancel_save": TOpt(TOpaque("cancel_save"))},
    "MessageSchema": {"ctx_protocol": TOpt(TProto)},
    "NodeSchema": {},
    "ChildSchema": {},
    "StreamTransport": {"reader": TOpt(TOpaque("StreamReader")), "writer": TOpt(TOpaque("StreamWriter"))},
    "TCPTransport": {"host": TStr, "port": TInt},
    "SerialTransport": {"port": TStr, "baud": TInt},
    "MQTTTransport": {"in_prefix": TStr, "out_prefix": TStr, "_incoming_messages": TOpaque("Queue")},
    "MQTTClient": {"_host": TStr, "_port": TInt, "_client": TOpt(TOpaque("AsyncioClient")), "_incoming_task": TOpt(TOpaque("Task"))},
    "ReceivedMessage": {"message_type": TEnum("MQTTMessageType"), "message": TOpt(TStr), "error": TOpt(TOpaque("Exception"))},
}


def fld(I, heap, name, sort, ref):
    return z3.Select(heap.get(name, arr(Ref, sort)), ref)


def elem_inv(I, heap, dtyp, k, v):
    """Element clauses of the global heap invariant WF, for dict type `dtyp` at key k with value v.

    WF (DESIGN.md Appendix A, wf_gateway/buffer_view key clauses):
      every dict[int, Node] maps n to a node whose node_id is n, and 0 <= n <= 255 (the decoder's node id range),
      every dict[int, Child] maps c to a child whose child_id is c,
      every dict[key3, Message] maps q to a message whose (node, child, type) is q and whose command is 0..4.
    """
    vt = dtyp.args[1]
    if vt == TObj("Node"):
        return [fld(I, heap, "Node.node_id", IntS, v) == k, k >= 0, k <= 255]
    if vt == TObj("Child"):
        return [fld(I, heap, "Child.child_id", IntS, v) == k]
    if vt == TObj("Message") and dtyp.args[0] == TKey3:
        return [fld(I, heap, "Message.node_id", IntS, v) == k3n(k),
                fld(I, heap, "Message.child_id", IntS, v) == k3c(k),
                fld(I, heap, "Message.message_type", IntS, v) == k3t(k),
                fld(I, heap, "Message.command", IntS, v) >= 0, fld(I, heap, "Message.command", IntS, v) <= 4]
    return []


# dict kinds whose element invariant is checked at the exits of functions under contract
WF_DICTS = [NODES, TDict(TInt, TObj("Child")), BUF]


# local variables holding `{}` that the code keys symbolically (A-TYPES for locals)
LOCALS = {
    ("aiomysensors.persistence.Persistence.save", "data"): TDict(TInt, TJson),
}
