"""Leaf effect specs of the incoming handlers and the derived contracts of every function up to the dispatch.

The state clauses are written from the property texts (C04 registry record, C05 version selection and gates,
C06 reactions, C07 wake release, C10 presentation requests, C13 reach invariant for battery level).
"""
from pyvc.core import *  # noqa: F403
from pyvc.core import ClassMethodVal, FuncVal
from pyvc.spec import Contract, Clause, P, H, CANARY, LoopContract
from .hspec import *  # noqa: F403
from .hspec import Out, HSpec, W, M, restrict, merge, to_contract, failing_writes, no_exc

PROTO = "aiomysensors.model.protocol."
VMODS = ["protocol_14", "protocol_15", "protocol_20", "protocol_21", "protocol_22"]
VTAG = {m: m[-2:] for m in VMODS}

MISSING_NODE = Out("MissingNodeError", "not (n in R)",
                   post=[P("C04/error-names-node", "exc.node_id == n"), P("C04/error-leaves-registry", "registry_unchanged()")])
MISSING_CHILD = Out("MissingChildError", "n in R and not (c in N.children)",
                    post=[P("C04/error-names-child", "exc.child_id == c"), P("C04/error-leaves-registry", "registry_unchanged()")])


def with_te(outs):
    res = []
    for o in outs:
        res.append(o)
        res += failing_writes(o)
    return res


# ---------------------------------------------------------------------------- leaves (protocol 1.4 bodies)

def leaf_version():
    """handle_i_version: the reported version selects the protocol (C05); a rejected report changes nothing."""
    ok = "av_valid(p)"
    return HSpec("i_version", [
        Out("normal", ok, post=[
            CANARY("C05/canary-always-1.4", "proto_index(gateway._protocol) == 0"),
            P("C05/version-recorded", "gateway._protocol_version == p"),
            P("C05/select", "proto_index(gateway._protocol) == select_idx(av_section(p, 0), av_section(p, 1))"),
            P("C05/agreement", "gateway._message_schema.ctx_protocol == gateway._protocol"),
            P("C04/version-report-leaves-registry", "registry_unchanged()"),
        ]),
        Out("InvalidMessageError", f"not ({ok})", post=[
            P("C05/agreement-on-reject", "gateway._protocol_version == old(gateway._protocol_version) and "
                                         "gateway._protocol == old(gateway._protocol) and "
                                         "gateway._message_schema.ctx_protocol == old(gateway._message_schema.ctx_protocol)"),
            P("C04/error-leaves-registry", "registry_unchanged()"),
            H("C03/names-message", "exc.message is message"),
        ]),
    ], modifies=["gateway._protocol_version", "gateway._protocol", "gateway._message_schema.ctx_protocol"])


PRES_FRESH = {
    "NN": {"type": TObj("Node"), "is": "gateway.nodes[message.node_id]", "when": "c == 255", "outcomes": ["normal", "InvalidMessageError"]},
    "NNC": {"type": TDict(TInt, TObj("Child")), "is": "gateway.nodes[message.node_id].children", "when": "c == 255",
            "outcomes": ["normal", "InvalidMessageError"]},
    "CC": {"type": TObj("Child"), "is": "gateway.nodes[message.node_id].children[message.child_id]", "when": "c != 255 and n in R"},
    "CCV": {"type": TDict(TInt, TStr), "is": "gateway.nodes[message.node_id].children[message.child_id].values", "when": "c != 255 and n in R"},
}
NEW_NODE_POST = [
    P("C04/node-presented", "n in R and NN.node_type == t and NN.protocol_version == p and empty(NNC)"),
    P("C04/only-that-node", "dict_only_at(R, n)"),
    H("C04/node-defaults", "NN.node_id == n and NN.battery_level == 0 and NN.heartbeat == 0 and NN.sketch_name == '' "
                           "and NN.sketch_version == '' and not NN.sleeping and not NN.reboot"),
]
VERSION_SET = [
    P("C05/version-recorded", "gateway._protocol_version == p"),
    P("C05/select", "proto_index(gateway._protocol) == select_idx(av_section(p, 0), av_section(p, 1))"),
    P("C05/agreement", "gateway._message_schema.ctx_protocol == gateway._protocol"),
]
VERSION_KEPT = [
    P("C05/agreement-on-reject", "gateway._protocol_version == old(gateway._protocol_version) and "
                                 "gateway._protocol == old(gateway._protocol) and "
                                 "gateway._message_schema.ctx_protocol == old(gateway._message_schema.ctx_protocol)"),
]


def leaf_presentation():
    return HSpec("presentation", [
        Out("normal", "c == 255 and n != 0", post=NEW_NODE_POST + VERSION_KEPT, label="node"),
        Out("normal", "c == 255 and n == 0 and av_valid(p)", post=NEW_NODE_POST + VERSION_SET, label="gateway-node"),
        Out("InvalidMessageError", "c == 255 and n == 0 and not av_valid(p)", post=NEW_NODE_POST + VERSION_KEPT + [H("C03/names-message", "exc.message is message")]),
        Out("MissingNodeError", "c != 255 and not (n in R)", post=MISSING_NODE.post + VERSION_KEPT),
        Out("normal", "c != 255 and n in R", post=[
            P("C04/child-presented", "c in N.children and CC.child_type == t and CC.description == p and empty(CCV)"),
            P("C04/only-that-child", "dict_only_at(N.children, c) and same_dict(R)"),
            H("C04/child-id", "CC.child_id == c"),
        ] + VERSION_KEPT, label="child"),
    ], modifies=["gateway.nodes[message.node_id]", "gateway.nodes[message.node_id].children[message.child_id]",
                 "gateway._protocol_version", "gateway._protocol", "gateway._message_schema.ctx_protocol"],
        fresh=PRES_FRESH)


def leaf_set():
    ok = "n in R and c in N.children"
    reboot = ("old(N.reboot)", "line(n, 255, 3, 0, 13, '')")
    V = "N.children[c].values"
    return HSpec("set", with_te([
        MISSING_NODE.copy(), MISSING_CHILD.copy(),
        Out("normal", ok, post=[
            CANARY("C04/canary-set-records-nothing", "registry_unchanged()"),
            CANARY("C06/canary-set-never-writes", "log_unchanged()"),
            P("C04/value-recorded", f"t in {V} and {V}[t] == p"),
            P("C04/only-that-value", f"dict_only_at(old({V}), t)"),
        ], log=[reboot]),
    ]), modifies=["gateway.nodes[message.node_id].children[message.child_id].values[message.message_type]"])


def leaf_req():
    ok = "n in R and c in N.children"
    V = "N.children[c].values"
    return HSpec("req", with_te([
        MISSING_NODE.copy(), MISSING_CHILD.copy(),
        Out("normal", ok, post=[P("C04/req-leaves-registry", "registry_unchanged()")],
            log=[(f"old(t in {V})", f"line(n, c, 1, 0, t, old({V}[t]))")]),
    ]))


def leaf_config():
    return HSpec("i_config", with_te([
        Out("normal", "True", post=[P("C04/config-leaves-registry", "registry_unchanged()")],
            log=[("gateway.config.metric", "line(n, c, message.command, 0, 6, 'M')"),
                 ("not gateway.config.metric", "line(n, c, message.command, 0, 6, 'I')")]),
    ]), requires=[H("wf/config-type", "message.message_type == 6")])


def leaf_time():
    return HSpec("i_time", with_te([
        Out("normal", "True", post=[P("C04/time-leaves-registry", "registry_unchanged()")],
            log=[("True", "line(n, c, message.command, 0, 1, dec(local_epoch(clock_now())))")]),
    ]), requires=[H("wf/time-type", "message.message_type == 1")])


def leaf_battery():
    ok = "float_ok(p) and 0 <= round_float(p) and round_float(p) <= 100"
    return HSpec("i_battery_level", [
        MISSING_NODE.copy(),
        Out("InvalidMessageError", f"n in R and not ({ok})", post=[
            P("C04/error-leaves-registry", "registry_unchanged()"), H("C03/names-message", "exc.message is message")]),
        Out("normal", f"n in R and {ok}", post=[
            P("C04/battery-recorded", "N.battery_level == round_float(p)"),
            P("C13/battery-in-schema-range", "0 <= N.battery_level and N.battery_level <= 100"),
        ]),
    ], modifies=["gateway.nodes[message.node_id].battery_level"])


def leaf_field(name, attr):
    return HSpec(name, [
        MISSING_NODE.copy(),
        Out("normal", "n in R", post=[P(f"C04/{attr}-recorded", f"N.{attr} == p")]),
    ], modifies=[f"gateway.nodes[message.node_id].{attr}"])


def leaf_id_request():
    """C11 (see c11_c.py for the full contract); here as an arm of the internal dispatch."""
    return HSpec("i_id_request", [
        Out("normal", "empty(R) or max_key(R) < 254", post=[
            P("C11/range", "1 <= new_id and new_id <= 254"),
            P("C11/fresh", "not old(new_id in R)"),
            P("C11/registered", "dom_eq_plus(R, new_id)"),
            P("C11/registered-before-write", "new_id in regs_at(old(wlen()), R)"),
            H("C11/others-untouched", "dict_only_at(R, new_id)"),
            H("C11/placeholder", "R[new_id].node_id == new_id and R[new_id].node_type == 17 and R[new_id].protocol_version == '1.4' "
                                 "and empty(R[new_id].children) and R[new_id].battery_level == 0 and R[new_id].heartbeat == 0 "
                                 "and R[new_id].sketch_name == '' and R[new_id].sketch_version == '' "
                                 "and not R[new_id].sleeping and not R[new_id].reboot"),
        ], log=[("True", "line(n, c, message.command, 0, 4, dec(new_id))")]),
        Out("TooManyNodesError", "not empty(R) and max_key(R) >= 254", post=[
            P("C11/fail-registry-unchanged", "registry_unchanged()"),
        ]),
        Out("TransportError", "empty(R) or max_key(R) < 254", post=[
            H("C11/write-failed-still-registered", "dom_eq_plus(R, new_id) and dict_only_at(R, new_id) "
                                                   "and 1 <= new_id and new_id <= 254 and not old(new_id in R)"),
        ], log=[]),
    ], modifies=["gateway.nodes[...]"], witness={"new_id": (TInt, "the_stored_key(gateway.nodes)")},
        fresh={"IDN": {"type": TObj("Node"), "is": "gateway.nodes[new_id]", "outcomes": ["normal", "TransportError"],
                       "when": "empty(R) or max_key(R) < 254"},
               "IDNC": {"type": TDict(TInt, TObj("Child")), "is": "gateway.nodes[new_id].children", "outcomes": ["normal", "TransportError"],
                        "when": "empty(R) or max_key(R) < 254"}},
        requires=[H("wf/dispatched-as-internal", "message.command == 3")])


def ident(name, extra_post=()):
    return HSpec(name, [Out("normal", "True", post=[P("C04/no-registry-effect", "registry_unchanged()")] + list(extra_post))])


# ---------------------------------------------------------------------------- leaves (2.0 / 2.2 bodies)

def leaf_gateway_ready():
    return HSpec("i_gateway_ready", with_te([
        Out("normal", "True", post=[P("C04/no-registry-effect", "registry_unchanged()")],
            log=[("True", "line(255, c, message.command, 0, 20, '')")]),
    ]))


def leaf_discover_response():
    return HSpec("i_discover_response", [MISSING_NODE.copy(),
                                         Out("normal", "n in R", post=[P("C04/no-registry-effect", "registry_unchanged()")])])


FLUSH_POST = [
    P("C07/released-gone", "forall(lambda q: implies(k3n(q) == n, not (q in SM)), 'key3')"),
    P("C07/only-that-node", "forall(lambda q: implies(k3n(q) != n, (q in SM) == old(q in SM) and implies(q in SM, SM[q] is old(SM[q]))), 'key3')"),
]


def leaf_heartbeat20():
    """2.0/2.1: the heartbeat response is the wake signal: sleeping, heartbeat, then release of the node's buffer."""
    return HSpec("i_heartbeat_response20", [
        MISSING_NODE.copy(),
        Out("InvalidMessageError", "n in R and not intlit(p)", post=[
            P("C04/error-leaves-registry", "registry_unchanged()"), H("C03/names-message", "exc.message is message")]),
        Out("normal", "n in R and intlit(p)", post=[
            P("C04/heartbeat-recorded", "N.heartbeat == intval(p)"), P("C07/wake-marks-sleeping", "N.sleeping"),
        ], label="wake"),
    ], modifies=["gateway.nodes[message.node_id].heartbeat", "gateway.nodes[message.node_id].sleeping"])


def leaf_heartbeat22():
    return HSpec("i_heartbeat_response22", [
        MISSING_NODE.copy(),
        Out("InvalidMessageError", "n in R and not intlit(p)", post=[
            P("C04/error-leaves-registry", "registry_unchanged()"), H("C03/names-message", "exc.message is message")]),
        Out("normal", "n in R and intlit(p)", post=[
            P("C04/heartbeat-recorded", "N.heartbeat == intval(p)"),
            P("C07+C19/heartbeat-is-no-wake-in-2.2", "N.sleeping == old(N.sleeping) and same_dict(SM)"),
        ]),
    ], modifies=["gateway.nodes[message.node_id].heartbeat"])


def leaf_pre_sleep22():
    return HSpec("i_pre_sleep_notification22", [
        MISSING_NODE.copy(),
        Out("normal", "n in R", post=[P("C07/wake-marks-sleeping", "N.sleeping")], label="wake"),
    ], modifies=["gateway.nodes[message.node_id].sleeping"])


# ---------------------------------------------------------------------------- the sleep-buffer release (C07, C08)

FLUSH_Q = PROTO + "protocol_20.IncomingMessageHandler._handle_sleep_buffer"

RELEASED = "old(key3(x) in SM and SM[key3(x)] is x and x.node_id == n)"


def flush_contract():
    ct = _flush_contract()
    ct.quantified_wf = (TDict(TKey3, TObj("Message")),)
    return ct


def _flush_contract():
    return Contract(
        FLUSH_Q,
        params={"cls": "cls", "gateway": GW, "message": MSG, "message_buffer": BUFT},
        requires=[H("wf/buffer-is-gateways", "message_buffer is gateway._message_buffer"),
                  H("wf/schema-follows-protocol", "gateway._message_schema.ctx_protocol == gateway._protocol"),
                  H("wf/buffer-dicts-distinct", "not (message_buffer.internal_messages is message_buffer.set_messages)"),
                  # while the release is suspended in a write, a concurrent send for this node must park, not overtake it (C09)
                  P("C09/destination-asleep-during-release", "message.node_id in gateway.nodes and gateway.nodes[message.node_id].sleeping")],
        pre_lets={"n": "message.node_id", "SM": "message_buffer.set_messages"},
        witness={"done": (T("set", TKey3), "loop_done()")},
        returns="message",
        modifies=["message_buffer.set_messages[...]"] + GHOST_LOG + ["ghost.wcnt"],
        ensures=[
            P("C04/yields-the-message", "result is message"),
            # C08's "is written at a later wake": a release whose writes all succeed leaves nothing of that node behind
            P("C07+C08/released-gone", "forall(lambda q: implies(k3n(q) == n, not (q in SM)), 'key3')"),
            P("C07/only-that-node", "forall(lambda q: implies(k3n(q) != n, (q in SM) == old(q in SM) and implies(q in SM, SM[q] is old(SM[q]))), 'key3')"),
            # C12's second way for a send to end: "held for a sleeping destination and handed to the transport at that node's next wake"
            P("C07+C08+C12/each-released-once", f"forall(lambda x: wcnt(x) == old(wcnt(x)) + (1 if {RELEASED} else 0), 'Message')"),
            H("C07/log-grows", "wlen() >= old(wlen())"),
            P("C10/release-leaves-request-markers-alone", "same_dict(message_buffer.internal_messages)"),
            P("C08/a-failed-write-is-reported", NOFAIL),
            CANARY("C07/canary-nothing-released", "same_dict(SM)"),
        ],
        raises={"TransportError": [
            H("te/failure-counted", FAILED),
            H("C07/log-grows", "wlen() >= old(wlen())"),
            P("C10/release-leaves-request-markers-alone", "same_dict(message_buffer.internal_messages)"),
            CANARY("C08/canary-failure-loses-nothing", "same_dict(SM)"),
            H("C08/done-is-of-that-node", "forall(lambda q: implies(q in done, old(q in SM) and k3n(q) == n), 'key3')"),
            P("C08/written-ones-gone", "forall(lambda q: implies(q in done, not (q in SM)), 'key3')"),
            # (C12: a held message that was not handed to the transport is still held - "never silently discarded")
            P("C08+C12/unwritten-stay", "forall(lambda q: implies(not (q in done), (q in SM) == old(q in SM) and implies(q in SM, SM[q] is old(SM[q]))), 'key3')"),
            P("C08/no-repeat", "forall(lambda x: wcnt(x) == old(wcnt(x)) + (1 if old(key3(x) in SM and SM[key3(x)] is x) and old(key3(x)) in done else 0), 'Message')"),
        ]},
    )


def flush_loop():
    return LoopContract(
        FLUSH_Q, 0,
        invariant=[
            P("C07/inv-dom", "forall(lambda q: (q in SM) == (old(q in SM) and not (q in done)), 'key3')"),
            P("C07/inv-map", "forall(lambda q: implies(q in SM, SM[q] is old(SM[q])), 'key3')"),
            P("C07+C08/inv-count", "forall(lambda x: wcnt(x) == old(wcnt(x)) + (1 if old(key3(x) in SM and SM[key3(x)] is x) and old(key3(x)) in done else 0), 'Message')"),
            H("C07/inv-log-grows", "wlen() >= old(wlen())"),
            H("C08/inv-no-write-failed-so-far", NOFAIL),
        ],
        modifies=["message_buffer.set_messages[...]"] + GHOST_LOG + ["ghost.wcnt"],
        calls="send",
    )


FLUSH_OUT_POST = [
    P("C07/released-gone", "forall(lambda q: implies(k3n(q) == n, not (q in SM)), 'key3')"),
    P("C07/only-that-node", "forall(lambda q: implies(k3n(q) != n, (q in SM) == old(q in SM) and implies(q in SM, SM[q] is old(SM[q]))), 'key3')"),
    P("C07/each-released-once", f"forall(lambda x: wcnt(x) == old(wcnt(x)) + (1 if {RELEASED} else 0), 'Message')"),
]
FLUSH_TE_POST = [
    H("C08/done-is-of-that-node", "forall(lambda q: implies(q in done, old(q in SM) and k3n(q) == n), 'key3')"),
    P("C08/written-ones-gone", "forall(lambda q: implies(q in done, not (q in SM)), 'key3')"),
    P("C08/unwritten-stay", "forall(lambda q: implies(not (q in done), (q in SM) == old(q in SM) and implies(q in SM, SM[q] is old(SM[q]))), 'key3')"),
    P("C08/no-repeat", "forall(lambda x: wcnt(x) == old(wcnt(x)) + (1 if old(key3(x) in SM and SM[key3(x)] is x) and old(key3(x)) in done else 0), 'Message')"),
]


def with_flush(hs):
    """A wake handler: its 'wake' outcome is followed by the release of the node's buffered commands."""
    out = hs.copy()
    outs = []
    for o in hs.outs:
        if o.label == "wake":
            outs.append(o.copy(post=list(o.post) + FLUSH_OUT_POST, log=None))
            outs.append(Out("TransportError", o.guard, post=no_exc(o.post) + FLUSH_TE_POST, log=None, label="release-interrupted"))
        else:
            outs.append(o.copy())
    out.outs = outs
    out.modifies = list(hs.modifies) + ["message_buffer.set_messages[...]"]
    out.witness = dict(hs.witness)
    out.witness["done"] = (T("set", TKey3), "loop_done()")
    return out


# ---------------------------------------------------------------------------- derivation along the real call chain

LEAVES = {
    PROTO + "protocol_14.IncomingMessageHandler.handle_presentation.__wrapped__": lambda v: leaf_presentation(),
    PROTO + "protocol_14.IncomingMessageHandler.handle_set.__wrapped__": lambda v: leaf_set(),
    PROTO + "protocol_14.IncomingMessageHandler.handle_req.__wrapped__": lambda v: leaf_req(),
    PROTO + "protocol_14.IncomingMessageHandler.handle_i_version": lambda v: leaf_version(),
    PROTO + "protocol_14.IncomingMessageHandler.handle_i_id_request": lambda v: leaf_id_request(),
    PROTO + "protocol_14.IncomingMessageHandler.handle_i_config": lambda v: leaf_config(),
    PROTO + "protocol_14.IncomingMessageHandler.handle_i_time": lambda v: leaf_time(),
    PROTO + "protocol_14.IncomingMessageHandler.handle_i_battery_level": lambda v: leaf_battery(),
    PROTO + "protocol_14.IncomingMessageHandler.handle_i_sketch_name": lambda v: leaf_field("i_sketch_name", "sketch_name"),
    PROTO + "protocol_14.IncomingMessageHandler.handle_i_sketch_version": lambda v: leaf_field("i_sketch_version", "sketch_version"),
    PROTO + "protocol_20.IncomingMessageHandler.handle_i_gateway_ready": lambda v: leaf_gateway_ready(),
    PROTO + "protocol_20.IncomingMessageHandler.handle_i_discover_response.__wrapped__": lambda v: leaf_discover_response(),
    # what a heartbeat response means is a matter of the receiver's version (C07, C19), not of where the code lives: under 2.2
    # it only stores the heartbeat, whether 2.2 overrides the handler or the 2.0 handler tests a class flag
    PROTO + "protocol_20.IncomingMessageHandler.handle_i_heartbeat_response.__wrapped__": lambda v: leaf_heartbeat22() if v == 4 else with_flush(leaf_heartbeat20()),
    PROTO + "protocol_22.IncomingMessageHandler.handle_i_heartbeat_response.__wrapped__": lambda v: leaf_heartbeat22(),
    PROTO + "protocol_22.IncomingMessageHandler.handle_i_pre_sleep_notification.__wrapped__": lambda v: with_flush(leaf_pre_sleep22()),
}


def unwrap(a):
    if isinstance(a, ClassMethodVal):
        a = a.func
    return a if isinstance(a, FuncVal) else None


def forwarder_target(func):
    """`return await super().NAME(gateway, message, message_buffer)` -> NAME, else None (read from the AST)."""
    body = [s for s in func.node.body if not (isinstance(s, ast.Expr) and isinstance(s.value, ast.Constant))]
    if len(body) != 1 or not isinstance(body[0], ast.Return):
        return None
    v = body[0].value
    if isinstance(v, ast.Await):
        v = v.value
    if (isinstance(v, ast.Call) and isinstance(v.func, ast.Attribute) and isinstance(v.func.value, ast.Call)
            and isinstance(v.func.value.func, ast.Name) and v.func.value.func.id == "super" and not v.func.value.args):
        return v.func.attr
    return None


import ast  # noqa: E402


class Deriver:
    def __init__(self, world, vmod):
        self.w = world
        self.vmod = vmod
        self.vidx = VMODS.index(vmod)
        self.mod = world.modules[PROTO + vmod]
        self.cls = self.mod.ns["IncomingMessageHandler"]
        self.specs = {}  # qualname -> HSpec
        self.funcs = {}

    def table(self, enum):
        e = unpoisoned(self.mod.ns[enum])
        return e.enum_canon  # value -> member

    def spec_of(self, func):
        q = func.qualname
        if q in self.specs:
            return self.specs[q]
        self.funcs[q] = func
        hs = self._spec_of(func)
        self.specs[q] = hs
        return hs

    def _spec_of(self, func):
        q = func.qualname
        wraps = getattr(func, "wraps", None)
        if wraps is not None:
            inner = self.spec_of(wraps)
            if func.module.endswith("protocol_14"):
                return W(inner, name=q, vq_possible=(self.vidx == 0))
            if func.module.endswith("protocol_20") or func.module.endswith("protocol_22"):
                return M(inner, name=q)
            raise Unsupported(f"unknown decorator around {q}")
        if q in LEAVES:
            return LEAVES[q](self.vidx)
        if q.endswith("protocol_14.IncomingMessageHandler.handle_internal.__wrapped__"):
            return self.dispatch_spec("Internal", "handle_{}", gate_needs_node=False)
        if q.endswith("protocol_14.IncomingMessageHandler.handle_stream.__wrapped__"):
            return self.dispatch_spec("Stream", "handle_{}", gate_needs_node=True)
        if q.endswith("protocol_20.IncomingMessageHandler.handle_presentation.__wrapped__"):
            return self.presentation20(func)
        name = forwarder_target(func)
        if name is not None:
            a, owner = self.cls.lookup(name, after=func.cls)
            tgt = unwrap(a)
            if tgt is None:
                raise Unsupported(f"{q}: super().{name} not found")
            return self.spec_of(tgt).copy()
        raise Unsupported(f"no effect specification for {q} (new or rewritten handler)")

    def presentation20(self, func):
        a, owner = self.cls.lookup("handle_presentation", after=func.cls)
        inner = self.spec_of(unwrap(a)).copy()
        for o in inner.outs:
            if o.kind in ("MissingNodeError", "MissingChildError"):
                o.post = list(o.post) + [H("C10/only-that-marker", "dict_only_at(IM, key3(n, c, 19))")]
                continue
            o.post = list(o.post) + [
                P("C10/rearm-on-node-presentation", "implies(c == 255, not (mk in IM))"),
                P("C10/child-presentation-does-not-rearm", "implies(c != 255, (mk in IM) == old(mk in IM))"),
                H("C10/only-that-marker", "dict_only_at(IM, key3(n, c, 19))"),
            ]
        inner.modifies = list(inner.modifies) + ["message_buffer.internal_messages[key3(message.node_id, message.child_id, 19)]"]
        return inner

    def arm_specs(self, enum, pattern="handle_{}"):
        """value -> (handler name, unrestricted effect spec) for every type of the active protocol's table."""
        out = {}
        for val, member in sorted(self.table(enum).items()):
            hname = pattern.format(member.name.lower())
            a, owner = self.cls.lookup(hname)
            h = unwrap(a)
            out[val] = (hname, ident(f"{hname}(none)") if h is None else self.spec_of(h).copy())
        return out

    def dispatch_spec(self, enum, pattern, gate_needs_node):
        """handle_internal / handle_stream: gate by the active protocol's table, then the per-type handler."""
        tbl = self.table(enum)
        arms = []
        for val, (hname, arm) in self.arm_specs(enum, pattern).items():
            cond = f"t == {val}"
            if gate_needs_node:
                cond = f"n in R and {cond}"
            arms.append(restrict(arm, cond))
        vals = sorted(tbl)
        in_table = " or ".join(f"t == {v}" for v in vals)
        gate_id = "C05/gate-internal" if enum == "Internal" else "C05/gate-stream"
        unsup_guard = f"not ({in_table})" if not gate_needs_node else f"n in R and not ({in_table})"
        unsup = HSpec("unsupported", [Out("UnsupportedMessageError", unsup_guard, post=[
            P(gate_id, "exc.message is message"), P("C04/error-leaves-registry", "registry_unchanged()")])])
        specs = arms + [unsup]
        if gate_needs_node:
            specs.append(HSpec("missing", [MISSING_NODE.copy()]))
        merged = merge(f"{enum}-dispatch[{self.vmod}]", specs)
        merged.pre_lets["supported"] = in_table
        return merged


def top_level(world, vmod):
    """(command name, number) -> resolved top-level handler of version vmod."""
    cls = world.modules[PROTO + vmod].ns["IncomingMessageHandler"]
    out = []
    for cmd, num in (("presentation", 0), ("set", 1), ("req", 2), ("internal", 3), ("stream", 4)):
        out.append((cmd, num, unwrap(cls.lookup(f"handle_{cmd}")[0])))
    return out


COMMAND_OF_TOP = {"handle_presentation": 0, "handle_set": 1, "handle_req": 2, "handle_internal": 3, "handle_stream": 4}


def register(world):
    """Derive and register the contract of every incoming-handler function, per receiver version."""
    units = []
    world.loops[(FLUSH_Q, 0)] = flush_loop()
    world.contracts.setdefault(FLUSH_Q, flush_contract())
    for vmod in VMODS:
        d = Deriver(world, vmod)
        for cmd, num, f in top_level(world, vmod):
            try:
                d.spec_of(f)
            except Unsupported as e:
                # a handler without an effect specification (new, or rewritten so that it is no forwarder any more): the dispatcher
                # above it has no derived contract for this version; the unit is reported as outside the subset (bounded stand-in)
                if f is None:
                    raise
                ct = Contract(f.qualname, params={"cls": "cls", "gateway": GW, "message": MSG, "message_buffer": BUFT})
                ct.unsupported_reason = str(e)
                units.append((f"{f.qualname}[{VTAG[vmod]}]", f.qualname, ct, d.cls, ()))
        for q, hs in d.specs.items():
            f = d.funcs[q]
            command = None
            base = q.replace(".__wrapped__", "").rsplit(".", 1)[-1]
            if base in COMMAND_OF_TOP:
                command = COMMAND_OF_TOP[base]
            elif base.startswith("handle_i_") and base != "handle_i_version":
                command = 3
            ct = to_contract(q, hs, d.vidx, command, first_param=f.node.args.args[0].arg)
            world.contracts.setdefault(q, {})
            if isinstance(world.contracts[q], dict):
                world.contracts[q][VTAG[vmod]] = ct
            base_q = q.replace(".__wrapped__", "")
            split = None
            if base_q.endswith(".handle_internal"):
                split = ("Internal", False)
            elif base_q.endswith(".handle_stream"):
                split = ("Stream", True)
            if split is None:
                units.append((f"{q}[{VTAG[vmod]}]", q, ct, d.cls, ()))
            else:
                # exhaustive case split over the active protocol's type table (and "not in the table")
                vals = sorted(d.table(split[0]))
                for val in vals:
                    units.append((f"{q}[{VTAG[vmod]}][type={val}]", q, ct, d.cls, (f"message.message_type == {val}",)))
                notin = " and ".join(f"message.message_type != {v}" for v in vals)
                units.append((f"{q}[{VTAG[vmod]}][type=other]", q, ct, d.cls, (notin,)))
        # the release loop itself, per receiver that has it
        a, owner = d.cls.lookup("_handle_sleep_buffer")
        if unwrap(a) is not None:
            units.append((f"{FLUSH_Q}[{VTAG[vmod]}]", FLUSH_Q, world.contracts[FLUSH_Q], d.cls, ()))
    return units
