"""Shared spec functions and ghost state (DESIGN.md Appendix A), usable in clause texts.

Each function is called as f(I, fr, *args) by the interpreter in spec mode; `fr.heap`
is the heap the surrounding expression is evaluated in (post-state, or pre-state
inside old(...)); two-state predicates use heaps(fr) = (post, pre).
"""
import z3

from pyvc.core import *  # noqa: F403
from pyvc.interp import is_sym, SpecOpt
from pyvc import lib as L

# ghost state: the log of lines handed to Transport.write that returned normally
GHOST_SORTS = {
    "ghost.wlen": IntS,
    "ghost.wat": arr(IntS, StrS),
    # the dom[int,Node] heap field (all node registries) as it was when the i-th line was written
    "ghost.wdom": arr(IntS, arr(Ref, arr(IntS, BoolS))),
    # the clock tick observed by the last time.localtime() call (A-CLOCK)
    "ghost.clock_now": IntS,
    # per message object: how many times Gateway.send handed its line to the transport successfully
    "ghost.wcnt": arr(Ref, IntS),
    # stream transports (A-STREAM): bytes not yet consumed by reads / bytes handed to the writer / writer closed
    "ghost.inb": BytesS,
    "ghost.outb": BytesS,
    "ghost.closed": BoolS,
    # MQTT (A-AIO queue as a FIFO log; A-MQTT publish / subscribe logs; number of live background tasks)
    "ghost.wfail": IntS,  # number of Transport.write calls that raised (C08: a failed write is reported, never swallowed)
    "ghost.qlen": IntS, "ghost.qhead": IntS, "ghost.qat": arr(IntS, Ref), "ghost.qmax": IntS,
    "ghost.plen": IntS, "ghost.ptopic": arr(IntS, StrS), "ghost.ppayload": arr(IntS, StrS), "ghost.pqos": arr(IntS, IntS),
    "ghost.slen": IntS, "ghost.stopic": arr(IntS, StrS), "ghost.sqos": arr(IntS, IntS),
    "ghost.tasks": IntS,
    "ghost.broker_errors": IntS,  # number of times the broker message iterator raised MqttError (the only thing that ends reception)
    # persistence (A-FS): content of the persistence file, whether it exists, number of completed saves, transport connection state
    "ghost.disk": StrS, "ghost.other_disk": StrS, "ghost.file_exists": BoolS, "ghost.saves": IntS, "ghost.connected": BoolS, "ghost.saver_pos": IntS, "ghost.slept": IntS, "ghost.dumped_keys": arr(IntS, BoolS),
}


def heaps(fr):
    f = fr
    while f is not None:
        if getattr(f, "new_heap", None) is not None:
            return f.new_heap, f.old_heap
        f = f.parent
    raise Unsupported("two-state predicate outside a contract clause")


def gget(I, heap, name):
    return heap.get(name, GHOST_SORTS[name])


def sterm(I, v):
    return I.to_term(v, TStr)


def iterm(I, v):
    return I.to_term(v, TInt)


def sf_dec(I, fr, n):
    i = I.intv(n)
    if isinstance(i, int):
        return str(i)
    return Sym(I.lib.dec_of(I, i), "str")


def sf_line(I, fr, n, c, k, a, t, p):
    parts = []
    for x in (n, c, k, a, t):
        parts.append(sf_dec(I, fr, x))
        parts.append(";")
    parts.append(p)
    parts.append("\n")
    return I.lib.concat(I, parts)


def mfield(I, fr, m, name):
    return I.read_field(m, name, fr)


def sf_enc(I, fr, m):
    return sf_line(I, fr, *[mfield(I, fr, m, f) for f in ("node_id", "child_id", "command", "ack", "message_type", "payload")])


def sf_key3(I, fr, *a):
    if len(a) == 1:
        m = a[0]
        a = [mfield(I, fr, m, f) for f in ("node_id", "child_id", "message_type")]
    return Sym(mkKey3(*[iterm(I, x) for x in a]), "key3")


def sf_wlen(I, fr):
    return Sym(gget(I, fr.heap, "ghost.wlen"), "int")


def sf_wat(I, fr, i):
    return Sym(z3.Select(gget(I, fr.heap, "ghost.wat"), iterm(I, i)), "str")


def sf_appended(I, fr, *lines):
    """The write log grew by exactly these lines, in this order."""
    new, old = heaps(fr)
    wl0, wa0 = gget(I, old, "ghost.wlen"), gget(I, old, "ghost.wat")
    wl1, wa1 = gget(I, new, "ghost.wlen"), gget(I, new, "ghost.wat")
    a = wa0
    for j, l in enumerate(lines):
        a = z3.Store(a, wl0 + j, sterm(I, l))
    return Sym(z3.And(wl1 == wl0 + len(lines), wa1 == a), "bool")


def _pairs(args):
    return [(args[i], args[i + 1]) for i in range(0, len(args), 2)]


def _appended_if_terms(I, fr, pairs):
    new, old = heaps(fr)
    wl0, wa0 = gget(I, old, "ghost.wlen"), gget(I, old, "ghost.wat")
    pos, a = wl0, wa0
    for cond, l in pairs:
        c = I.as_bool(I.truthy(cond))
        a = z3.If(c, z3.Store(a, pos, sterm(I, l)), a)
        pos = z3.If(c, pos + 1, pos)
    return pos, a


def sf_appended_if(I, fr, *args):
    """appended_if(c1, l1, c2, l2, ...): the log grew by exactly the lines whose condition holds, in order."""
    new, old = heaps(fr)
    pos, a = _appended_if_terms(I, fr, _pairs(args))
    return Sym(z3.And(gget(I, new, "ghost.wlen") == pos, gget(I, new, "ghost.wat") == a), "bool")


def sf_appended_prefix_if(I, fr, *args):
    """A write failed: the log grew by the due lines before some due line j, which was not written."""
    new, old = heaps(fr)
    pairs = _pairs(args)
    alts = []
    for j in range(len(pairs)):
        pos, a = _appended_if_terms(I, fr, pairs[:j])
        cj = I.as_bool(I.truthy(pairs[j][0]))
        alts.append(z3.And(cj, gget(I, new, "ghost.wlen") == pos, gget(I, new, "ghost.wat") == a))
    return Sym(z3.Or(*alts) if alts else z3.BoolVal(False), "bool")


def sf_nothing_changed(I, fr, *except_prefixes):
    """Every heap field is identical in both states (optionally except names starting with the given prefixes)."""
    new, old = heaps(fr)
    cs = []
    for n, a in new.cur.items():
        if n == "alive" or any(n.startswith(p) for p in except_prefixes):
            continue
        b = old.get(n, a.sort())
        if not z3.eq(a, b):
            cs.append(a == b)
    return Sym(z3.And(*cs) if cs else z3.BoolVal(True), "bool")


def sf_registry_unchanged(I, fr):
    """No node, child or value changed: every Node.*, Child.* field and the three registry dict kinds are identical."""
    new, old = heaps(fr)
    cs = []
    for n, a in new.cur.items():
        if n.startswith("Node.") or n.startswith("Child.") or n in (
                "dom[int,Node]", "map[int,Node]", "dom[int,Child]", "map[int,Child]", "dom[int,str]", "map[int,str]"):
            b = old.get(n, a.sort())
            if not z3.eq(a, b):
                al = old.get("alive", arr(Ref, BoolS))
                r = z3.Const("r_ru", Ref)
                # fields of objects that did not exist before may differ (unreachable garbage)
                cs.append(z3.ForAll([r], z3.Implies(z3.Select(al, r), z3.Select(a, r) == z3.Select(b, r))))
    return Sym(z3.And(*cs) if cs else z3.BoolVal(True), "bool")


def sf_clock_now(I, fr):
    return Sym(gget(I, fr.heap, "ghost.clock_now"), "int")


def sf_select_idx(I, fr, M, m):
    """C05: index (0..4 = 1.4,1.5,2.0,2.1,2.2) of the newest supported protocol whose major.minor <= (M, m)."""
    M, m = iterm(I, M), iterm(I, m)

    def ge(a, b):
        return z3.Or(M > a, z3.And(M == a, m >= b))
    return Sym(z3.If(ge(2, 2), 4, z3.If(ge(2, 1), 3, z3.If(ge(2, 0), 2, z3.If(ge(1, 5), 1, 0)))), "int")


def sf_av_valid(I, fr, s):
    if isinstance(s, str):  # A-AV on a literal: ask the real library
        from awesomeversion import AwesomeVersion
        return AwesomeVersion(s).valid
    return Sym(L.av_valid(sterm(I, s)), "bool")


def sf_av_section(I, fr, s, i):
    if isinstance(s, str) and isinstance(i, int):
        from awesomeversion import AwesomeVersion
        return AwesomeVersion(s).section(i)
    return Sym(L.av_section(sterm(I, s), iterm(I, i)), "int")


def sf_float_ok(I, fr, s):
    t = sterm(I, s)
    f = L.parse_float(t)
    return Sym(z3.And(L.floatlit(t), z3.Not(L.f_isnan(f)), z3.Not(L.f_isinf(f))), "bool")


def sf_log_unchanged(I, fr):
    return sf_appended(I, fr)


def sf_unchanged(I, fr, *names):
    """Whole heap fields (by name, e.g. 'Node.battery_level', 'ghost.wlen') are identical in both states."""
    new, old = heaps(fr)
    cs = []
    for n in names:
        a = new.cur.get(n)
        if a is None:
            continue
        b = old.get(n, a.sort())
        cs.append(a == b)
    return Sym(z3.And(*cs) if cs else z3.BoolVal(True), "bool")


def sf_same_dict(I, fr, *ds):
    """The dicts have the same keys and values in both states."""
    new, old = heaps(fr)
    cs = []
    for d in ds:
        if isinstance(d, SpecOpt):
            d = d.value
        cs.append(I.d_dom(d, new) == I.d_dom(d, old))
        cs.append(I.d_map(d, new) == I.d_map(d, old))
    return Sym(z3.And(*cs), "bool")


def sf_dict_only_at(I, fr, d, *keys):
    """dict d differs between the two states at most at the given keys."""
    new, old = heaps(fr)
    dom0, map0 = I.d_dom(d, old), I.d_map(d, old)
    dom1, map1 = I.d_dom(d, new), I.d_map(d, new)
    for k in keys:
        kt = I.to_term(k, d.typ.args[0])
        dom0 = z3.Store(dom0, kt, z3.Select(dom1, kt))
        map0 = z3.Store(map0, kt, z3.Select(map1, kt))
    return Sym(z3.And(dom1 == dom0, map1 == map0), "bool")


def sf_dom(I, fr, d):
    if isinstance(d, SpecOpt):
        d = d.value
    return L.SetVal(I.d_dom(d, fr.heap), d.typ.args[0])


def sf_dom_eq_plus(I, fr, d, *keys):
    """dom(d) in the post-state == dom(d) in the pre-state plus the keys."""
    new, old = heaps(fr)
    a = I.d_dom(d, old)
    for k in keys:
        a = z3.Store(a, I.to_term(k, d.typ.args[0]), z3.BoolVal(True))
    return Sym(I.d_dom(d, new) == a, "bool")


def sf_dom_eq_minus(I, fr, d, *keys):
    new, old = heaps(fr)
    a = I.d_dom(d, old)
    for k in keys:
        a = z3.Store(a, I.to_term(k, d.typ.args[0]), z3.BoolVal(False))
    return Sym(I.d_dom(d, new) == a, "bool")


def sf_empty(I, fr, d):
    return Sym(z3.Not(I.d_nonempty(d, fr.heap)), "bool")


def sf_max_key(I, fr, d):
    """max of a non-empty int-keyed dict, as a spec term with its defining facts."""
    dom = I.d_dom(d, fr.heap)
    r = I.c.fresh("maxk", IntS)
    kq = z3.Int("k_mx")
    I.c.assume(z3.Implies(dom != z3.K(IntS, z3.BoolVal(False)),
                          z3.And(z3.Select(dom, r), z3.ForAll([kq], z3.Implies(z3.Select(dom, kq), kq <= r)))))
    I.d_elem_facts(d, r)
    return Sym(r, "int")


def sf_alive(I, fr, o):
    return Sym(z3.Select(I.alive(fr.heap), o.ref), "bool")


def sf_is_new(I, fr, o):
    """o (evaluated in the current state) did not exist in the pre-state: it was allocated by this call."""
    new, old = heaps(fr)
    if isinstance(o, SpecOpt):
        o = o.value
    return Sym(z3.Not(z3.Select(I.alive(old), o.ref)), "bool")


def sf_local_epoch(I, fr, t):
    return Sym(L.local_epoch(iterm(I, t)), "int")


def sf_proto_index(I, fr, v):
    """Index 0..4 of a protocol module value / of the protocol field."""
    if isinstance(v, SpecOpt):
        v = v.value
    return Sym(I.to_term(v, TProto), "int")


def sf_round_float(I, fr, s):
    return Sym(L.round_he(L.parse_float(sterm(I, s))), "int")


def sf_intval(I, fr, s):
    return Sym(L.intval(sterm(I, s)), "int")


def sf_intlit(I, fr, s):
    return Sym(L.intlit(sterm(I, s)), "bool")


def sf_the_stored_key(I, fr, d):
    """Witness: the key this path stored into dict d (strategy independent); fresh if none."""
    new, old = heaps(fr)
    t = z3.simplify(I.d_dom(d, new))
    keys = []
    while z3.is_app(t) and t.decl().kind() == z3.Z3_OP_STORE:
        if z3.is_true(t.arg(2)):
            keys.append(t.arg(1))
        t = t.arg(0)
    if len(keys) >= 1:
        return I.wrap(keys[-1], d.typ.args[0])
    return I.wrap(I.c.fresh("nokey", sort_of(d.typ.args[0])), d.typ.args[0])


def sf_regs_at(I, fr, i, d):
    """Keys of int-keyed dict d at the time log position i was written."""
    new, old = heaps(fr)
    wd = gget(I, fr.heap, "ghost.wdom")
    return L.SetVal(z3.Select(z3.Select(wd, iterm(I, i)), d.ref), TInt)


def sf_wdom_recorded(I, fr):
    """Transport.write records the current int-keyed dict domains at the position it writes."""
    new, old = heaps(fr)
    wd0, wd1 = gget(I, old, "ghost.wdom"), gget(I, new, "ghost.wdom")
    cur = old.get("dom[int,Node]", arr(Ref, arr(IntS, BoolS)))
    return Sym(wd1 == z3.Store(wd0, gget(I, old, "ghost.wlen"), cur), "bool")


def sf_wcnt(I, fr, m):
    return Sym(z3.Select(gget(I, fr.heap, "ghost.wcnt"), m.ref), "int")


def sf_wcnt_bumped(I, fr, m):
    new, old = heaps(fr)
    w0, w1 = gget(I, old, "ghost.wcnt"), gget(I, new, "ghost.wcnt")
    return Sym(w1 == z3.Store(w0, m.ref, z3.Select(w0, m.ref) + 1), "bool")


def sf_k3n(I, fr, q):
    return Sym(k3n(I.to_term(q, TKey3)), "int")


def sf_loop_done(I, fr):
    """Witness for the set of keys a (possibly interrupted) for-loop has processed on this path."""
    d = getattr(I, "last_done", None)
    if d is None:
        d = z3.K(Key3, z3.BoolVal(False))
    return L.SetVal(d, TKey3)


def sf_rstrip(I, fr, s):
    from pyvc import strings
    if isinstance(s, str):
        return s.rstrip()
    return Sym(L.rstrip_f(sterm(I, s)), "str")


def sf_nth(I, fr, s, sep, i):
    from pyvc import strings
    return Sym(strings.nth(sterm(I, s), sterm(I, sep), iterm(I, i)), "str")


def sf_rest(I, fr, s, sep, i):
    from pyvc import strings
    return Sym(strings.rest(sterm(I, s), sterm(I, sep), iterm(I, i)), "str")


def sf_nfields(I, fr, s, sep):
    from pyvc import strings
    return Sym(strings.nf(sterm(I, s), sterm(I, sep)), "int")


def sf_cross_ok(I, fr, c, k, t):
    """The protocol's cross-field rules (C02), from the property text."""
    c, k, t = iterm(I, c), iterm(I, k), iterm(I, t)
    sys_ok = z3.Implies(z3.Or(k == 3, k == 4), z3.Or(c == 255, z3.And(k == 3, z3.Or(t == 3, t == 4))))
    no_set_req_on_255 = z3.Implies(c == 255, z3.And(k != 1, k != 2))
    return Sym(z3.And(sys_ok, no_set_req_on_255), "bool")


def sf_inb(I, fr):
    return Sym(gget(I, fr.heap, "ghost.inb"), "bytes")


def sf_outb(I, fr):
    return Sym(gget(I, fr.heap, "ghost.outb"), "bytes")


def sf_first_line(I, fr, b):
    from pyvc import models
    return Sym(models.first_line(b.term), "bytes")


def sf_after_line(I, fr, b):
    from pyvc import models
    return Sym(models.after_line(b.term), "bytes")


def sf_has_line(I, fr, b):
    from pyvc import models
    return Sym(models.has_line(b.term), "bool")


def sf_utf8_ok(I, fr, b):
    return Sym(L.utf8_ok(b.term), "bool")


def sf_utf8_dec(I, fr, b):
    return Sym(L.utf8_dec(b.term), "str")


def sf_utf8(I, fr, s):
    return Sym(L.utf8(sterm(I, s)), "bytes")


def sf_bcat(I, fr, a, b):
    from pyvc import models
    return Sym(models.bcat(a.term, b.term), "bytes")


def sf_g(I, fr, name, *idx):
    """ghost field by name, optionally indexed: g('ghost.ptopic', i)"""
    t = gget(I, fr.heap, name)
    for i in idx:
        t = z3.Select(t, iterm(I, i))
    srt = t.sort()
    if srt == IntS:
        return I.mk(t, "int")
    if srt == StrS:
        return I.mk(t, "str")
    if srt == BoolS:
        return I.mk(t, "bool")
    if srt == Ref:
        return Obj(t, TObj("ReceivedMessage"))
    return Sym(t, "array")


def sf_is_transport_error(I, fr, o):
    from pyvc import models
    if isinstance(o, SpecOpt):
        o = o.value
    return Sym(models.exc_is_transport_error(o.ref), "bool")


def sf_dumped_keys(I, fr):
    return L.SetVal(gget(I, fr.heap, "ghost.dumped_keys"), TInt)


def sf_same_keys(I, fr, sv, d):
    """the set sv equals the key set of dict d"""
    return Sym(sv.term == I.d_dom(d, fr.heap), "bool")


def sf_set_empty(I, fr, sv):
    return Sym(sv.term == z3.K(sort_of(sv.ktype), z3.BoolVal(False)), "bool")


SPEC_GLOBALS = {
    "set_empty": sf_set_empty, "dumped_keys": sf_dumped_keys, "same_keys": sf_same_keys,
    "g": sf_g, "is_transport_error": sf_is_transport_error,
    "inb": sf_inb, "outb": sf_outb, "first_line": sf_first_line, "after_line": sf_after_line, "has_line": sf_has_line,
    "utf8_ok": sf_utf8_ok, "utf8_dec": sf_utf8_dec, "utf8": sf_utf8, "bcat": sf_bcat,
    "rstrip": sf_rstrip, "nth": sf_nth, "rest": sf_rest, "nfields": sf_nfields, "cross_ok": sf_cross_ok,
    "loop_done": sf_loop_done,
    "wcnt": sf_wcnt, "wcnt_bumped": sf_wcnt_bumped, "k3n": sf_k3n,
    "appended_if": sf_appended_if, "appended_prefix_if": sf_appended_prefix_if, "nothing_changed": sf_nothing_changed,
    "registry_unchanged": sf_registry_unchanged, "clock_now": sf_clock_now, "select_idx": sf_select_idx,
    "av_valid": sf_av_valid, "av_section": sf_av_section, "float_ok": sf_float_ok,
    "the_stored_key": sf_the_stored_key, "regs_at": sf_regs_at, "wdom_recorded": sf_wdom_recorded,
    "dec": sf_dec, "line": sf_line, "enc": sf_enc, "key3": sf_key3,
    "wlen": sf_wlen, "wat": sf_wat, "appended": sf_appended, "log_unchanged": sf_log_unchanged,
    "unchanged": sf_unchanged, "same_dict": sf_same_dict, "dict_only_at": sf_dict_only_at,
    "dom": sf_dom, "dom_eq_plus": sf_dom_eq_plus, "dom_eq_minus": sf_dom_eq_minus, "empty": sf_empty,
    "max_key": sf_max_key, "alive": sf_alive, "is_new": sf_is_new, "local_epoch": sf_local_epoch, "proto_index": sf_proto_index,
    "round_float": sf_round_float, "intval": sf_intval, "intlit": sf_intlit,
    "True": True, "False": False, "None": None,
}
