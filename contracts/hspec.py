"""Handler effect specifications and their composition through the two decorators and the dispatchers.

A leaf handler is described once (HSpec: outcomes with guard / state clauses / log entries).  The contracts of
every function between that leaf and Gateway.listen are *derived* from it by the same transformations the code
applies: the version-query wrapper W (protocol_14.handle_missing_protocol_version), the presentation-request
wrapper M (protocol_20.handle_missing_node_child), forwarding through super(), and the type dispatch of
handle_internal / handle_stream.  Each derived contract is then proved against the real function body with its
callees replaced by *their* derived contracts (modular), so a change anywhere on the chain fails an obligation of
the function that contains it.
"""
from pyvc.core import *  # noqa: F403
from pyvc.spec import Contract, Clause, P, H, CANARY
from .base_c import NOFAIL, FAILED

GW = TObj("Gateway")
MSG = TObj("Message")
BUFT = TObj("MessageBuffer")
GHOST_LOG = ["ghost.wlen", "ghost.wat", "ghost.wdom", "ghost.wfail"]

VQ_LINE = "'0;255;3;0;2;\\n'"


def pr_line():
    return "line(n, 255, 3, 0, 19, '')"


class Out:
    def __init__(self, kind, guard, post=(), log=(), label=None):
        self.kind = kind  # 'normal' or an exception class name
        self.guard = guard  # pre-state condition (string)
        self.post = list(post)  # Clause list, post-state (old() allowed)
        self.log = None if log is None else list(log)  # [(cond, line)]: exactly the lines whose cond holds were written, in this order
        self.label = label or kind

    def copy(self, **kw):
        o = Out(self.kind, self.guard, list(self.post), None if self.log is None else list(self.log), self.label)
        for k, v in kw.items():
            setattr(o, k, v)
        return o


def no_exc(post):
    """State clauses of an outcome reused for a TransportError outcome: those about the original exception are dropped."""
    return [c for c in post if "exc." not in c.text and c.tag != "canary"]


def failing_writes(o):
    """TransportError outcomes of a leaf outcome whose writes may fail: entry j was due and failed, the earlier ones were written."""
    outs = []
    for j, (cj, lj) in enumerate(o.log or []):
        outs.append(Out("TransportError", o.guard, post=[H("te/failed-write-was-due", cj)], log=o.log[:j], label=f"write-{j}-failed-in-{o.label}"))
    return outs


class HSpec:
    def __init__(self, name, outs, modifies=(), requires=(), witness=None, fresh=None, exc_attrs=None, pre_lets=None, note="", lets=None):
        self.name = name
        self.outs = list(outs)
        self.modifies = list(modifies)
        self.requires = list(requires)
        self.witness = dict(witness or {})
        self.fresh = dict(fresh or {})
        self.exc_attrs = dict(exc_attrs or {})
        self.pre_lets = dict(pre_lets or {})
        self.lets = dict(lets or {})
        self.note = note

    def copy(self):
        return HSpec(self.name, [o.copy() for o in self.outs], list(self.modifies), list(self.requires),
                     dict(self.witness), dict(self.fresh), dict(self.exc_attrs), dict(self.pre_lets), self.note, dict(self.lets))


PRE_LETS = {
    "R": "gateway.nodes",
    "n": "message.node_id",
    "c": "message.child_id",
    "t": "message.message_type",
    "p": "message.payload",
    "N": "gateway.nodes[message.node_id]",
    "IM": "message_buffer.internal_messages",
    "SM": "message_buffer.set_messages",
    "mk": "key3(message.node_id, 255, 19)",
}

EXC_ATTRS = {
    "MissingNodeError": {"node_id": TInt},
    "MissingChildError": {"child_id": TInt},
    "UnsupportedMessageError": {"message": MSG},
    "InvalidMessageError": {"message": MSG},
}

LIB_ERRORS = ["MissingNodeError", "MissingChildError", "UnsupportedMessageError", "InvalidMessageError", "TooManyNodesError", "TransportError"]


def handler_requires(vidx, command=None):
    rq = [
        H("wf/protocol-is-receiver", f"proto_index(gateway._protocol) == {vidx}"),
        H("wf/buffer-is-gateways", "message_buffer is gateway._message_buffer"),
        H("wf/schema-follows-protocol", "gateway._message_schema.ctx_protocol == gateway._protocol"),
        H("wf/version-none-means-1.4", "implies(gateway._protocol_version is None, proto_index(gateway._protocol) == 0)"),
        H("wf/message-ranges", "0 <= message.node_id and message.node_id <= 255 and 0 <= message.child_id and message.child_id <= 255"),
        H("wf/buffer-dicts-distinct", "not (message_buffer.internal_messages is message_buffer.set_messages)"),
    ]
    if command is not None:
        rq.append(H("wf/dispatched-command", f"message.command == {command}"))
    return rq


def log_text(o):
    if o.log is None:
        return "wlen() >= old(wlen())"
    args = ", ".join(f"{c}, {l}" for c, l in o.log)
    return f"appended_if({args})"


def log_id(o):
    """Which property the exact write log of an outcome belongs to: presentation requests are C10's, the rest C06's."""
    if o.kind in ("MissingNodeError", "MissingChildError"):
        return "C10/requests-exact" if any("19" in l for _, l in (o.log or [])) else "C06+C10/log-exact"
    return "C06/log-exact"



def to_contract(qualname, hs, vidx, command=None, extra_requires=(), check_wf=True, first_param="cls"):
    params = {first_param: "cls", "gateway": GW, "message": MSG, "message_buffer": BUFT}
    ensures, raises = [], {}
    groups = {}
    for o in hs.outs:
        groups.setdefault(o.kind, []).append(o)
    touches_im = any("internal_messages" in str(m) for m in hs.modifies)  # the wrappers that set / clear request markers say so
    for kind, outs in groups.items():
        cl = []
        if kind == "TransportError":
            # outcomes distinguished by *which* write failed share pre-state guards: disjunctive clauses.
            # Three of them, so that a failure is attributed to the property it belongs to:
            #   state part (what C08 / C10 say about the buffers and markers), log part (C06), and their correlation (helper).
            full, state, logs = [], [], []
            for o in outs:
                g = f"old({o.guard})"
                posts = [f"({c.text})" for c in o.post]
                full.append("(" + " and ".join([g] + posts + [log_text(o)]) + ")")
                state.append("(" + " and ".join([g] + posts) + ")")
                logs.append("(" + " and ".join([g, log_text(o)]) + ")")
            has_req = any("19" in l for o in outs for _, l in (o.log or []))
            props = sorted({pid for o in outs for c in o.post for pid in c.id.split("/")[0].split("+") if pid.startswith("C") and c.tag == "property"})
            for pid in props:
                # projection on one property: only that property's state clauses are kept in every alternative
                alts = []
                for o in outs:
                    keep = [f"({c.text})" for c in o.post if pid in c.id.split("/")[0].split("+")]
                    alts.append("(" + " and ".join([f"old({o.guard})"] + keep) + ")")
                cl.append(P(f"{pid}/transport-error-state", " or ".join(alts)))
            cl.append(H("te/transport-error-state", " or ".join(state)))
            cl.append(P(("C10" if has_req else "C06") + "/transport-error-log", " or ".join(logs)))
            cl.append(H("te/transport-error-cases", " or ".join(full)))
            cl.append(H("te/failure-counted", FAILED))
        else:
            for o in outs:
                g = f"old({o.guard})"
                for c in o.post:
                    cl.append(Clause(c.id, f"implies({g}, {c.text})", c.tag, guard=g))
                if not touches_im and not any(("IM" in c.text) or ("mk" in c.text) for c in o.post):
                    # only a rejected message from an unknown node/child sets a request marker and only that node's own presentation
                    # clears it: every other handled message leaves the markers alone (C10: "until that node has presented itself")
                    cl.append(Clause("C10/markers-untouched-by-other-messages", f"implies({g}, same_dict(IM))", "property", guard=g))
                if o.log is not None and not any("SM" in c.text for c in o.post):
                    # only Gateway.send and a wake touch the sleep buffer: every other handled message leaves it alone (C07)
                    cl.append(Clause("C07/buffer-untouched-by-non-wake-messages", f"implies({g}, same_dict(SM))", "property", guard=g))
                cl.append(Clause(log_id(o) if o.log is not None else "C07/log-grows", f"implies({g}, {log_text(o)})", "property", guard=g))
            # which outcome a message has is part of what the properties say ("battery ... reports update the node's attributes", "types
            # that exist are accepted"): an exit of this kind from a pre-state in which the specification gives another outcome - a
            # legal report rejected, an illegal one recorded - fails here, whatever the exit itself leaves behind
            owner = {"UnsupportedMessageError": "C05", "TooManyNodesError": "C11"}.get(kind, "C04")
            cl.append(P(f"{owner}/outcome-as-specified/{kind}", " or ".join(f"old({o.guard})" for o in outs)))
            # whatever else happens, a handler that does not raise a transport error has not seen a write fail (C08: "the failure
            # is reported to the caller of listen" - a swallowed TransportError returns or raises something else with wfail advanced)
            cl.append(P("C08/a-failed-write-is-reported", NOFAIL))
        if kind == "normal":
            cl.insert(0, P("C04/yields-the-message", "result is message"))
            ensures = cl
        else:
            raises[kind] = cl
    pre_lets = dict(PRE_LETS)
    pre_lets.update(hs.pre_lets)
    ct = _to_contract(qualname, hs, params, ensures, raises, pre_lets, vidx, command, extra_requires, check_wf)
    # C04: "a message that refers to a node or child not in the registry ... fails with an error that names that node or child":
    # in such a pre-state no exception the contract does not list may escape instead (C03 owns the escape itself: raises-only)
    missing = [f"old({o.guard})" for o in hs.outs if o.kind in ("MissingNodeError", "MissingChildError")]
    if missing:
        ct.unexpected_exc = [P("C04/unknown-node-or-child-is-named", "not (" + " or ".join(missing) + ")")]
    return ct


def _to_contract(qualname, hs, params, ensures, raises, pre_lets, vidx, command, extra_requires, check_wf):
    return Contract(qualname, params=params,
                    requires=handler_requires(vidx, command) + list(hs.requires) + list(extra_requires),
                    modifies=sorted(set(hs.modifies), key=str) + GHOST_LOG + ["ghost.clock_now", "ghost.wcnt"],
                    returns="message", ensures=ensures, raises=raises, pre_lets=pre_lets, witness=hs.witness, fresh=dict(hs.fresh), lets=dict(hs.lets),
                    exc_attrs=EXC_ATTRS, check_wf=check_wf)


# ----------------------------------------------------------------------------
# transformations

VQ_DUE = ("gateway._protocol_version is None and not (message.command == 3 and "
          "(message.message_type == 9 or message.message_type == 14))")


def W(hs, name=None, vq_possible=True):
    """protocol_14.handle_missing_protocol_version around a handler with spec hs.

    After the handler (returning or raising, TransportError included) one version query is written iff the version
    is still unknown and the message is not an internal log / gateway-ready message; if that write fails, its
    TransportError replaces whatever the handler did (finally-clause semantics) and the handler's effects stay.
    """
    out = hs.copy()
    out.name = name or f"W({hs.name})"
    outs = []
    for o in hs.outs:
        if o.log is None:
            # a wake release (C07): only under 2.x rules, where the version is known and no query is due
            outs.append(o.copy(post=list(o.post) + [H("W/no-query-after-release", f"not ({VQ_DUE})")]))
            continue
        outs.append(o.copy(log=o.log + [(VQ_DUE, VQ_LINE)]))
        if not vq_possible:
            continue  # rules newer than 1.4 are active only when a version is known: the query is never due
        outs.append(Out("TransportError", o.guard, post=no_exc(o.post) + [H("W/vq-was-due", VQ_DUE)], log=list(o.log),
                        label=f"vq-failed-after-{o.label}"))
    out.outs = outs
    return out


def M(hs, name=None):
    """protocol_20.handle_missing_node_child around a handler with spec hs (C10)."""
    out = hs.copy()
    out.name = name or f"M({hs.name})"
    outs = []
    for o in hs.outs:
        if o.kind in ("MissingNodeError", "MissingChildError"):
            o2 = o.copy()
            o2.log = (o.log or []) + [("not old(mk in IM)", pr_line())]
            o.post = [c for c in o.post if "dict_only_at(IM" not in c.text and "same_dict(IM" not in c.text]
            o2.post = list(o.post) + [
                CANARY("C10/canary-never-requests", "log_unchanged()"),
                P("C10/marked-after-request", "mk in IM"),
                P("C10/other-markers-untouched", "dict_only_at(IM, mk, key3(n, c, 19))"),
                H("C10/marker-is-a-presentation-request", "implies(not old(mk in IM), IM[mk].node_id == n and IM[mk].child_id == 255 and IM[mk].message_type == 19)"),
                H("C10/marker-kept", "implies(old(mk in IM) and c == 255, IM[mk] is old(IM[mk]))"),
            ]
            outs.append(o2)
            outs.append(Out("TransportError", f"({o.guard}) and not (mk in IM)",
                            post=no_exc(o.post) + [P("C10/failed-request-not-marked", "not (mk in IM) and dict_only_at(IM, key3(n, c, 19))")],
                            log=None if o.log is None else list(o.log), label=f"request-failed-after-{o.label}"))
        else:
            outs.append(o.copy())
    out.outs = outs
    out.modifies = list(hs.modifies) + ["message_buffer.internal_messages[key3(message.node_id, 255, 19)]"]
    out.fresh = dict(hs.fresh)
    out.fresh["PM"] = {"type": MSG, "is": "message_buffer.internal_messages[key3(message.node_id, 255, 19)]",
                       "when": "not (mk in IM)", "outcomes": ["MissingNodeError", "MissingChildError"]}
    return out


def restrict(hs, cond, name=None):
    """The same spec under an additional pre-state condition (one arm of a type dispatch)."""
    out = hs.copy()
    out.name = name or hs.name
    for o in out.outs:
        o.guard = f"({cond}) and ({o.guard})"
    for k, fd in list(out.fresh.items()):
        fd = dict(fd)
        fd["when"] = f"({cond}) and ({fd.get('when', 'True')})"
        out.fresh[k] = fd
    out.modifies = [(f"({cond}) and ({m[0]})", m[1]) if isinstance(m, tuple) else (cond, m) for m in out.modifies]
    return out


def merge(name, specs):
    out = HSpec(name, [])
    for s in specs:
        out.outs += [o.copy() for o in s.outs]
        out.modifies += s.modifies
        # the arms' own preconditions (their type, their command) are established by the dispatch itself and are
        # checked at the call sites of the arms; they are not preconditions of the dispatcher
        for k, v in s.witness.items():
            out.witness[k] = v
        for k, v in s.fresh.items():
            out.fresh[k] = v
        out.pre_lets.update(s.pre_lets)
        out.lets.update(s.lets)
    return out
