"""C09 - send racing with the wake-up flush: rely/guarantee at the await inside the flush loop (DESIGN.md section 8 C09)."""
import ast

import z3

from pyvc.core import *  # noqa: F403
from pyvc.spec import Contract, Clause, P, H, CANARY, LoopContract
from .base_c import GW, MSG, BUFT, GHOST_LOG
from .handlers_c import FLUSH_Q, PROTO

OUT_SET = PROTO + "protocol_14.OutgoingMessageHandler.handle_set"
SEND_Q = "aiomysensors.gateway.Gateway.send"


def interference(I, node, fr):
    """Rely: while the listener is suspended in an await of the flush, other tasks run whole `Gateway.send` calls: entries of
    the node being released (it stays flagged sleeping for the whole release, so a send for it parks) are added or overwritten,
    never removed; entries of other nodes may also disappear (a direct write drops the superseded entry of its own key); the
    write log and the per-message write counters only grow."""
    if fr.func is None or fr.func.qualname != FLUSH_Q:
        return
    c = I.c
    I.pre_interference_snap = c.heap.snapshot()  # what the release itself did before it suspended
    buf = fr.locals["message_buffer"]
    sm = I.read_field(buf, "set_messages")
    dom0, map0 = I.d_dom(sm), I.d_map(sm)
    dom1 = c.fresh("rely_dom", dom0.sort())
    map1 = c.fresh("rely_map", map0.sort())
    q = z3.Const("q_rely", Key3)
    nid = I.to_term(I.read_field(fr.locals["message"], "node_id"), TInt)
    c.assume(z3.ForAll([q], z3.Implies(z3.And(z3.Select(dom0, q), k3n(q) == nid), z3.Select(dom1, q))))
    I.d_set_dom(sm, dom1)
    I.d_set_map(sm, map1)
    w0 = c.heap.get("ghost.wcnt", arr(Ref, IntS))
    w1 = c.fresh("rely_wcnt", w0.sort())
    x = z3.Const("x_rely", Ref)
    c.assume(z3.ForAll([x], z3.Select(w1, x) >= z3.Select(w0, x)))
    c.heap.set("ghost.wcnt", w1)
    wl0 = c.heap.get("ghost.wlen", IntS)
    wl1 = c.fresh("rely_wlen", IntS)
    c.assume(wl1 >= wl0)
    c.heap.set("ghost.wlen", wl1)
    c.heap.set("ghost.wat", c.fresh("rely_wat", arr(IntS, StrS)))
    c.heap.set("ghost.wdom", c.fresh("rely_wdom", I.w.ghost_sorts["ghost.wdom"]))
    snap = c.heap.snapshot()
    c.wf_snaps.append(snap)  # the other tasks preserve the heap invariant
    I.interference_snap = snap


def loop_contract():
    return LoopContract(
        FLUSH_Q, 0,
        invariant=[P("C09/destination-stays-asleep-during-release", "n in gateway.nodes and gateway.nodes[n].sleeping"),
                   H("C09/unprocessed-entries-still-buffered", "forall(lambda q: implies(old(q in SM) and q in loop_dict and not (q in done), q in SM), 'key3')")],
        step=[P("C09/no-unwritten-entry-removed",
                "forall(lambda q: implies(at_interference(q in SM) and not (q in SM), "
                "wcnt(at_interference(SM[q])) == at_interference(wcnt(SM[q])) + 1), 'key3')"),
              # ... and the same for what the release removes before it suspends in the write: between two suspension points the
              # buffer may hold a value a concurrent send parked during the previous write; taking that one out and writing the
              # snapshot's older value loses the newer one
              P("C09/no-unwritten-entry-removed-before-the-write",
                "forall(lambda q: implies(old(q in SM) and not before_interference(q in SM), "
                "wcnt(old(SM[q])) >= old(wcnt(SM[q])) + 1), 'key3')"),
              CANARY("C09/canary-nothing-ever-removed", "forall(lambda q: implies(old(q in SM), q in SM), 'key3')")],
        modifies=["message_buffer.set_messages[...]"] + GHOST_LOG + ["ghost.wcnt"], calls="send")


def flush_contract():
    ct = Contract(
        FLUSH_Q, params={"cls": "cls", "gateway": GW, "message": MSG, "message_buffer": BUFT},
        requires=[H("wf/buffer-is-gateways", "message_buffer is gateway._message_buffer"),
                  H("wf/schema-follows-protocol", "gateway._message_schema.ctx_protocol == gateway._protocol"),
                  H("wf/buffer-dicts-distinct", "not (message_buffer.internal_messages is message_buffer.set_messages)"),
                  H("C09/destination-asleep-during-release", "message.node_id in gateway.nodes and gateway.nodes[message.node_id].sleeping")],
        pre_lets={"n": "message.node_id", "SM": "message_buffer.set_messages"},
        returns="message", modifies=["message_buffer.set_messages[...]"] + GHOST_LOG + ["ghost.wcnt"],
        ensures=[H("C09/returns-the-message", "result is message")],
        raises={"TransportError": [H("C09/failure-propagates", "True")]}, check_wf=False)  # (wfail: see handlers_c flush contract)
    ct.quantified_wf = (TDict(TKey3, TObj("Message")),)
    ct.raises_only_id = "C09+C03/raises-only"
    return ct


def park_hook(I, outcome, heap0, heap1):
    """Guarantee side of the rely, read off the path itself: when the outgoing set handler parks a message (a store into
    the sleep buffer), no suspension point lies between its read of `node.sleeping` and that store - another task cannot
    run in between, so a message is never parked for a node that has meanwhile been released."""
    import z3
    out = []
    for tn, at, reads in I.stores:
        if tn == tname(TDict(TKey3, TObj("Message"))):
            ok = reads.get("Node.sleeping") == at
            out.append(("C09/park-is-atomic", "property", z3.BoolVal(bool(ok))))
    return out
