"""C17 - contracts of StreamTransport (serial / TCP) over ghost byte streams (A-STREAM)."""
from pyvc.core import *  # noqa: F403
from pyvc.spec import Contract, Clause, P, H, CANARY

ST = "aiomysensors.transport.StreamTransport."
GH = ["ghost.inb", "ghost.outb", "ghost.closed"]


def T_(cls):
    return TObj(cls)


def read_contract(cls, connected):
    pre = [H("case/connected", "not (self.reader is None)")] if connected else [H("case/never-connected", "self.reader is None")]
    ens = [P("C17/read-returns-next-line-decoded", "old(has_line(inb())) and utf8_ok(old(first_line(inb()))) and "
                                                   "result == utf8_dec(old(first_line(inb()))) and inb() == old(after_line(inb()))"),
           CANARY("C17/canary-read-consumes-nothing", "inb() == old(inb())")]
    ct = Contract(ST + "read", params={"self": T_(cls)}, requires=pre, returns=TStr, modifies=GH,
                  ensures=ens if connected else [P("C17/unconnected-read-is-an-error", "False")],
                  raises={"TransportError": [P("C17/failed-read-writes-nothing", "outb() == old(outb())"),
                                             # the reads that follow must still see whole lines of the stream: a failed read leaves the
                                             # unread bytes alone or removes exactly the (undecodable) line it tried
                                             P("C17/failed-read-stays-on-a-line-boundary", "inb() == old(inb()) or inb() == old(after_line(inb()))")]},
                  check_wf=False)
    ct.raises_only_id = "C17+C03/raises-only"
    if not connected:
        ct.optional_outcomes = ("normal",)
    return ct


def write_contract(cls, connected):
    pre = [H("case/connected", "not (self.writer is None)")] if connected else [H("case/never-connected", "self.writer is None")]
    ct = Contract(ST + "write", params={"self": T_(cls), "decoded_message": TStr}, requires=pre, modifies=GH,
                  ensures=[P("C17/write-appends-exactly-the-utf8-bytes", "outb() == bcat(old(outb()), utf8(decoded_message)) and inb() == old(inb())"),
                           CANARY("C17/canary-write-writes-nothing", "outb() == old(outb())")] if connected
                  else [P("C17/unconnected-write-is-an-error", "False")],
                  raises={"TransportError": [H("C17/failed-write", "inb() == old(inb())")]}, check_wf=False)
    ct.raises_only_id = "C17/raises-only"
    if not connected:
        ct.optional_outcomes = ("normal",)
    return ct


def connect_contract(cls):
    ct = Contract(ST + "connect", params={"self": T_(cls)}, modifies=["self.reader", "self.writer"] + GH,
                  ensures=[P("C17/connected", "not (self.reader is None) and not (self.writer is None)")],
                  raises={"TransportError": [H("C17/connect-failed", "True")]}, check_wf=False)
    ct.raises_only_id = "C17/raises-only"
    return ct


def disconnect_contract(cls, connected):
    pre = [H("case/connected", "not (self.writer is None)")] if connected else [H("case/never-connected", "self.writer is None")]
    ct = Contract(ST + "disconnect", params={"self": T_(cls)}, requires=pre, modifies=GH + ["ghost.tasks"],
                  ensures=[P("C17/disconnect-absorbs-os-errors", "True"),
                           # leaving the gateway context ends in this call: whatever it started must be finished when it returns (C16)
                           P("C16+C17/disconnect-leaves-no-task", "g('ghost.tasks') == old(g('ghost.tasks'))")]
                  + ([] if connected else [P("C17/disconnect-noop-when-never-connected", "nothing_changed()")]),
                  raises={}, check_wf=False)
    ct.raises_only_id = "C17/raises-only"
    return ct


def units(world):
    out = []
    for cls in ("TCPTransport", "SerialTransport"):
        c = world.classes[cls]
        for connected in (True, False):
            tag = "connected" if connected else "never-connected"
            out.append((f"{ST}read[{cls}][{tag}]", ST + "read", read_contract(cls, connected), None, ()))
            out.append((f"{ST}write[{cls}][{tag}]", ST + "write", write_contract(cls, connected), None, ()))
            out.append((f"{ST}disconnect[{cls}][{tag}]", ST + "disconnect", disconnect_contract(cls, connected), None, ()))
        out.append((f"{ST}connect[{cls}]", ST + "connect", connect_contract(cls), None, ()))
    return out
