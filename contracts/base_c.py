"""Contracts of the transport primitive (assumed, A-TRANSPORT) and of Gateway.send as used by callers."""
from pyvc.core import *  # noqa: F403
from pyvc.spec import Contract, P, H, CANARY

GW = TObj("Gateway")
MSG = TObj("Message")
BUFT = TObj("MessageBuffer")
GHOST_LOG = ["ghost.wlen", "ghost.wat", "ghost.wdom", "ghost.wfail"]
NOFAIL = "g('ghost.wfail') == old(g('ghost.wfail'))"  # no transport write failed during the call
FAILED = "g('ghost.wfail') >= old(g('ghost.wfail')) + 1"  # at least one did
GHOST_ALL = GHOST_LOG + ["ghost.wcnt", "ghost.clock_now"]


def register(w):
    # A-TRANSPORT: a write that returns appended the line; a write that raises did not write.
    w.contracts["aiomysensors.transport.Transport.write"] = Contract(
        "aiomysensors.transport.Transport.write",
        params={"self": TObj("Transport"), "decoded_message": TStr},
        modifies=GHOST_LOG,
        ensures=[H("write/appended", "appended(decoded_message) and wdom_recorded()"), H("write/no-failure", NOFAIL)],
        raises={"TransportError": [H("write/failed-not-written", "log_unchanged() and unchanged('ghost.wdom')"),
                                   H("write/failure-counted", "g('ghost.wfail') == old(g('ghost.wfail')) + 1")]},
        wf=False, check_wf=False)
    w.assumed.add("aiomysensors.transport.Transport.write")

    # Gateway.send as used by its callers: the line of a message the codec accepts is written, or a set command
    # for a sleeping node is parked under its key (C12's trichotomy; discharged on Gateway.send itself by props/C12).
    w.contracts["aiomysensors.gateway.Gateway.send"] = Contract(
        "aiomysensors.gateway.Gateway.send",
        params={"self": GW, "message": MSG, "message_buffer": TBool},
        requires=[H("command-in-range", "0 <= message.command and message.command <= 4"),
                  H("schema-follows-protocol", "self._message_schema.ctx_protocol == self._protocol"),
                  H("wf/buffer-dicts-distinct", "not (self._message_buffer.internal_messages is self._message_buffer.set_messages)")],
        pre_lets={
            "key": "key3(message)",
            "buf": "self._message_buffer",
            "parks": "message_buffer and message.command == 1 and message.node_id in self.nodes "
                     "and self.nodes[message.node_id].sleeping",
        },
        modifies=["self._message_buffer.set_messages[key3(message)]"] + GHOST_LOG + ["ghost.wcnt"],
        ensures=[
            P("C12/parked", "implies(parks, key in buf.set_messages and buf.set_messages[key] is message "
                            "and log_unchanged() and unchanged('ghost.wdom', 'ghost.wcnt'))"),
            P("C12/written", "implies(not parks, appended(enc(message)) and wdom_recorded() and wcnt_bumped(message) "
                             "and dict_only_at(buf.set_messages, key))"),
            # C07 "carrying the most recently sent value": a set command written directly supersedes an older one parked for its key
            P("C07/direct-write-supersedes-parked-value", "implies(not parks and message.command == 1 and message_buffer, not (key in buf.set_messages))"),
            H("C12/other-commands-leave-the-buffer-alone", "implies(not parks and not (message.command == 1 and message_buffer), same_dict(buf.set_messages))"),
            P("C08+C12/returns-only-if-no-write-failed", NOFAIL),
        ],
        raises={"TransportError": [P("C12/failed-nothing-written", "log_unchanged() and unchanged('ghost.wdom', 'ghost.wcnt') "
                                                                   "and same_dict(buf.set_messages) and not parks"),
                                   H("C12/failure-counted", FAILED)]},
    )
