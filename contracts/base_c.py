"""Contracts of the transport primitive (assumed, A-TRANSPORT) and of Gateway.send as used by callers."""
from pyvc.core import *  # noqa: F403
from pyvc.spec import Contract, P, H, CANARY

GW = TObj("Gateway")
MSG = TObj("Message")
BUFT = TObj("MessageBuffer")
GHOST_LOG = ["ghost.wlen", "ghost.wat", "ghost.wdom"]


def register(w):
    # A-TRANSPORT: a write that returns appended the line; a write that raises did not write.
    w.contracts["aiomysensors.transport.Transport.write"] = Contract(
        "aiomysensors.transport.Transport.write",
        params={"self": TObj("Transport"), "decoded_message": TStr},
        modifies=GHOST_LOG,
        ensures=[H("write/appended", "appended(decoded_message) and wdom_recorded()")],
        raises={"TransportError": [H("write/failed-not-written", "log_unchanged() and unchanged('ghost.wdom')")]},
        wf=False, check_wf=False)
    w.assumed.add("aiomysensors.transport.Transport.write")

    # Gateway.send as seen by the incoming handlers (every internal caller sends set or internal messages).
    w.contracts["aiomysensors.gateway.Gateway.send"] = Contract(
        "aiomysensors.gateway.Gateway.send",
        params={"self": GW, "message": MSG, "message_buffer": TBool},
        requires=[H("cmd-set-or-internal", "message.command == 1 or message.command == 3")],
        pre_lets={
            "key": "key3(message)",
            "buf": "self._message_buffer",
            "parks_set": "message_buffer and message.command == 1 and message.node_id in self.nodes "
                         "and self.nodes[message.node_id].sleeping",
            "parks_int": "message_buffer and message.command == 3",
        },
        modifies=["self._message_buffer.set_messages[key3(message)]",
                  "self._message_buffer.internal_messages[key3(message)]"] + GHOST_LOG,
        ensures=[
            H("send/parked-set", "implies(parks_set, key in buf.set_messages and buf.set_messages[key] is message "
                                 "and log_unchanged() and unchanged('ghost.wdom') and same_dict(buf.internal_messages))"),
            H("send/parked-internal", "implies(parks_int, key in buf.internal_messages and buf.internal_messages[key] is message "
                                      "and log_unchanged() and unchanged('ghost.wdom') and same_dict(buf.set_messages))"),
            H("send/written", "implies(not parks_set and not parks_int, appended(enc(message)) and wdom_recorded() "
                              "and same_dict(buf.set_messages, buf.internal_messages))"),
        ],
        raises={"TransportError": [H("send/failed", "log_unchanged() and unchanged('ghost.wdom') "
                                                    "and same_dict(buf.set_messages, buf.internal_messages) "
                                                    "and not parks_set and not parks_int")]},
    )
