"""Contracts of Gateway (send, listen, __init__, protocol_version setter), get_protocol and the outgoing handlers."""
import z3

from pyvc.core import *  # noqa: F403
from pyvc.spec import Contract, Clause, P, H, CANARY
from .base_c import NOFAIL, FAILED, GW, MSG, BUFT, GHOST_LOG
from .codec_c import ACCEPT, F
from .specfuncs import gget

PROTO = "aiomysensors.model.protocol."
OUT14 = PROTO + "protocol_14.OutgoingMessageHandler."
TW = "aiomysensors.transport.Transport.write"
TR = "aiomysensors.transport.Transport.read"
SETTER = "aiomysensors.gateway.Gateway.protocol_version.setter"
GETP = PROTO + "get_protocol"
LIB_ERRORS = ["InvalidMessageError", "MissingNodeError", "MissingChildError", "UnsupportedMessageError", "TooManyNodesError", "TransportError"]


def bump_wcnt(I, fr):
    """ghost: this outgoing handler handed `message`'s line to the transport successfully."""
    m = fr.locals["message"]
    w = I.c.heap.get("ghost.wcnt", arr(Ref, IntS))
    I.c.heap.set("ghost.wcnt", z3.Store(w, m.ref, z3.Select(w, m.ref) + 1))


def outgoing_contract(name, has_buffer):
    buf = BUFT if has_buffer else ("const", None)
    parks = "False"
    if name == "handle_set" and has_buffer:
        parks = "message.node_id in gateway.nodes and gateway.nodes[message.node_id].sleeping"
    mods = list(GHOST_LOG) + ["ghost.wcnt"]
    if has_buffer:
        mods.append("message_buffer.set_messages[key3(message)]")
    ens = [P("C12/written-unchanged", "implies(not parks, appended(decoded_message) and wdom_recorded() and wcnt_bumped(message))"),
           P("C08+C12/returns-only-if-no-write-failed", NOFAIL)]
    te = [P("C12/failed-nothing-written", "log_unchanged() and unchanged('ghost.wdom', 'ghost.wcnt') and not parks"), H("C12/failure-counted", FAILED)]
    if has_buffer:
        # (C08: "every command not yet written stays buffered" presupposes that parking one command never displaces another:
        # one slot per (node, child, value type))
        ens.append(P("C07+C08+C12/parked-under-its-key", "implies(parks, key3(message) in message_buffer.set_messages and "
                                                     "message_buffer.set_messages[key3(message)] is message and log_unchanged() "
                                                     "and unchanged('ghost.wdom', 'ghost.wcnt'))"))
        if name == "handle_set":
            ens.append(P("C12/buffer-untouched-when-written", "implies(not parks, dict_only_at(message_buffer.set_messages, key3(message)))"))
            ens.append(P("C07/direct-write-supersedes-parked-value", "implies(not parks, not (key3(message) in message_buffer.set_messages))"))
        else:
            ens.append(P("C12/buffer-untouched-when-written", "implies(not parks, same_dict(message_buffer.set_messages))"))
        ens.append(H("C12/internal-buffer-untouched", "same_dict(message_buffer.internal_messages)"))
        ens.append(P("C09+C12/guarantee-messages-not-mutated", "unchanged('Message.node_id', 'Message.child_id', 'Message.command', 'Message.ack', "
                                                               "'Message.message_type', 'Message.payload')"))
        # what a send may do to the shared buffer: add or replace the entry of its own key, or - only when it wrote directly, which it does
        # only for a destination that is not flagged sleeping - drop the entry of its own key; entries of other keys stay
        ens.append(P("C09/guarantee-only-its-own-key-and-never-a-sleeping-nodes-entry",
                     "forall(lambda q: implies(old(q in message_buffer.set_messages) and not (q in message_buffer.set_messages), "
                     "q == key3(message) and not parks), 'key3')"))
        te.append(H("C12/failed-buffers-untouched", "same_dict(message_buffer.set_messages, message_buffer.internal_messages)"))
    ct = Contract(OUT14 + name,
                  params={"cls": "cls", "gateway": GW, "message": MSG, "message_buffer": buf, "decoded_message": TStr},
                  requires=[H("line-is-the-message", "decoded_message == enc(message)"),
                            H("command-in-range", "0 <= message.command and message.command <= 4")] +
                           ([H("wf/buffer-dicts-distinct", "not (message_buffer.internal_messages is message_buffer.set_messages)")] if has_buffer else []),
                  pre_lets={"parks": parks}, modifies=mods, ensures=ens, raises={"TransportError": te})
    ct.raises_only_id = "C12+C03/raises-only"
    return ct


def send_not_a_message_contract():
    ct = Contract("aiomysensors.gateway.Gateway.send",
                  params={"self": GW, "message": TOpaque("object"), "message_buffer": TBool},
                  requires=[H("schema-follows-protocol", "self._message_schema.ctx_protocol == self._protocol")],
                  ensures=[P("C12/not-a-message-is-rejected", "False")],
                  raises={"InvalidMessageError": [P("C12/not-a-message-writes-nothing", "nothing_changed()")]}, check_wf=False)
    ct.raises_only_id = "C12+C03/raises-only"
    ct.optional_outcomes = ("normal",)
    return ct


def read_contract():
    """A-TRANSPORT: read returns some line (any string) or raises a TransportError."""
    return Contract(TR, params={"self": TObj("Transport")}, returns=TStr, witness={"read_line": (TStr, "None")},
                    ensures=[H("read/returns-a-line", "result == read_line")], raises={"TransportError": [H("read/failed", "True")]},
                    wf=False, check_wf=False)


LISTEN_WF = ("self._message_schema.ctx_protocol == self._protocol and "
             "implies(self._protocol_version is None, proto_index(self._protocol) == 0)")


def listen_contract():
    lets = {"s": "rstrip(read_line)"}
    fields = ("result.node_id == intval(nth(s, ';', 0)) and result.child_id == intval(nth(s, ';', 1)) and "
              "result.command == intval(nth(s, ';', 2)) and result.ack == intval(nth(s, ';', 3)) and "
              "result.message_type == intval(nth(s, ';', 4)) and result.payload == rest(s, ';', 5)")
    ct = Contract("aiomysensors.gateway.Gateway.listen", params={"self": GW},
                  requires=[H("wf/gateway", LISTEN_WF),
                            H("wf/buffer-dicts-distinct", "not (self._message_buffer.internal_messages is self._message_buffer.set_messages)")],
                  witness={"read_line": (TStr, "None")}, lets=lets,
                  modifies=["field:*"],
                  ensures=[P("C01+C02+C04/yields-the-decoded-line", fields),
                           P("C03+C05/gateway-stays-usable", LISTEN_WF),
                           P("C08/a-failed-write-is-reported", NOFAIL)],
                  raises={"AIOMySensorsError": [P("C03+C05/gateway-stays-usable", LISTEN_WF)]}, check_wf=False)
    ct.raises_only_id = "C03/raises-only"
    return ct


def get_protocol_contract():
    ct = Contract(GETP, params={"protocol_version": TStr}, returns=TProto,
                  ensures=[P("C05/accepts-only-valid", "av_valid(protocol_version)"),
                           P("C05/select", "proto_index(result) == select_idx(av_section(protocol_version, 0), av_section(protocol_version, 1))")],
                  raises={"ValueError": [P("C05/rejects-only-invalid", "not av_valid(protocol_version)")]}, wf=False, check_wf=False)
    ct.raises_only_id = "C03+C05/raises-only"  # the callers on the receive path convert ValueError only
    return ct


def setter_contract():
    return Contract(SETTER, params={"self": GW, "value": TStr},
                    modifies=["self._protocol_version", "self._protocol", "self._message_schema.ctx_protocol"],
                    ensures=[P("C05/accepts-only-valid", "av_valid(value)"),
                             P("C05/version-recorded", "self._protocol_version == value"),
                             P("C05/select", "proto_index(self._protocol) == select_idx(av_section(value, 0), av_section(value, 1))"),
                             P("C05/agreement", "self._message_schema.ctx_protocol == self._protocol")],
                    raises={"ValueError": [P("C05/rejects-only-invalid", "not av_valid(value)"),
                                           P("C05/agreement-on-reject", "self._protocol_version == old(self._protocol_version) and "
                                                                        "self._protocol == old(self._protocol) and "
                                                                        "self._message_schema.ctx_protocol == old(self._message_schema.ctx_protocol)")]},
                    check_wf=False)


def init_contract(with_config):
    params = {"self": GW, "transport": TObj("Transport"), "config": TObj("Config") if with_config else ("const", None)}
    return Contract("aiomysensors.gateway.Gateway.__init__", params=params,
                    modifies=["field:*"],
                    ensures=[P("C05/default-is-1.4", "self._protocol_version is None and proto_index(self._protocol) == 0 "
                                                     "and self._message_schema.ctx_protocol == self._protocol"),
                             H("init/empty-registry-and-buffers", "empty(self.nodes) and empty(self._message_buffer.set_messages) "
                                                                  "and empty(self._message_buffer.internal_messages) and "
                                                                  "not (self._message_buffer.internal_messages is self._message_buffer.set_messages)"),
                             H("C16/persistence-shares-the-registry", "implies(not (self.persistence is None), self.persistence.nodes is self.nodes)")],
                    raises={}, check_wf=False)


def register(w):
    w.contracts[TR] = read_contract()
    w.assumed.add(TR)
    w.contracts[GETP] = get_protocol_contract()
    w.contracts[SETTER] = setter_contract()
    for name in ("handle_set", "handle_internal", "handle_presentation", "handle_req", "handle_stream"):
        if (OUT14 + name) in w.functions:
            with_b, without_b = outgoing_contract(name, True), outgoing_contract(name, False)
            w.contracts[OUT14 + name] = (lambda I, f, args, kwargs, a=with_b, b=without_b:
                                         b if (len(args) > 3 and args[3] is None) or kwargs.get("message_buffer", 0) is None else a)


def units(w):
    """(name, qualname, contract, receiver, case, setup)"""
    out = []
    hook = lambda I: setattr(I, "ghost_after", {TW: bump_wcnt})  # noqa: E731
    ocls = w.modules[PROTO + "protocol_14"].ns["OutgoingMessageHandler"]
    for name in ("handle_set", "handle_internal", "handle_presentation", "handle_req", "handle_stream"):
        if (OUT14 + name) not in w.functions:
            continue
        for hb in (True, False):
            out.append((f"{OUT14}{name}[{'buffer' if hb else 'no-buffer'}]", OUT14 + name, outgoing_contract(name, hb), ocls, (), hook))
    sendq = "aiomysensors.gateway.Gateway.send"
    for i, tag in enumerate(["14", "15", "20", "21", "22"]):
        out.append((f"{sendq}[{tag}]", sendq, w.contracts[sendq], None, (f"proto_index(self._protocol) == {i}",), None))
    out.append((f"{sendq}[not-a-message]", sendq, send_not_a_message_contract(), None, (), None))
    return out


def listen_units(w):
    q = "aiomysensors.gateway.Gateway.listen"
    ct = listen_contract()
    return [(f"{q}[{tag}]", q, ct, None, (f"proto_index(self._protocol) == {i}",), None) for i, tag in enumerate(["14", "15", "20", "21", "22"])]


RELEASE_HARNESS = {
    2: "def release2(M, m):\n    return get_protocol(f'{M}.{m}')\n",
    3: "def release3(M, m, p):\n    return get_protocol(f'{M}.{m}.{p}')\n",
    4: "def release4(M, m, p, b):\n    return get_protocol(f'{M}.{m}.{p}.{b}')\n",
}


def release_units(w):
    """C05/select[k sections]: for every release version string M.m[.p[.b]] the selected protocol is select(M, m)."""
    out = []
    for k, src in RELEASE_HARNESS.items():
        f = w.make_harness(f"release{k}", src, module="aiomysensors.model.protocol")
        names = ["M", "m", "p", "b"][:k]
        ct = Contract(f.qualname, params={n: TInt for n in names}, requires=[H("non-negative-parts", " and ".join(f"{n} >= 0" for n in names))],
                      returns=TProto, ensures=[P(f"C05/select[{k} sections]", "proto_index(result) == select_idx(M, m)"),
                                               CANARY(f"C05/canary-always-newest[{k}]", "proto_index(result) == 4")],
                      raises={}, wf=False, check_wf=False)
        ct.raises_only_id = "C05/release-versions-are-accepted"
        out.append((f"get_protocol(release version, {k} sections)", f.qualname, ct, None, (), None))
    return out


def version_units(w):
    out = [(GETP, GETP, get_protocol_contract(), None, (), None), (SETTER, SETTER, setter_contract(), None, (), None)]
    q = "aiomysensors.gateway.Gateway.__init__"
    out.append((q + "[config]", q, init_contract(True), None, (), None))
    out.append((q + "[no-config]", q, init_contract(False), None, (), None))
    return out
