#!/usr/bin/env python3
"""Regenerates /verif/MANIFEST.json from the property modules that exist (keeps not_applicable current)."""
import json
import os
import subprocess

V = os.path.dirname(os.path.dirname(os.path.abspath(__file__)))
props = [json.loads(l) for l in open(os.path.join(V, "properties.jsonl"))]
LEVEL_TEXT = {
    "C01": "proof: dump, load(dump(m)) and dump(load(line)) discharged for all payload strings and all five versions, modulo the marshmallow and str lemma contracts",
    "C02": "proof: accept-iff, literal decode and raises-only{ValidationError} of Schema.load discharged over the field-list abstraction of all strings, five versions",
    "C03": "proof: exhaustive raises clauses on every function of the receive path (implicit raises are paths); listen re-establishes its precondition",
    "C04": "proof: every handler refines the registry step specification (whole-heap frame), per version, composed through both decorators and the dispatch; which outcome a message has (recorded, rejected, unknown node/child named) is fixed by pre-state guards written from the property text, also for exits with an exception the specification does not list",
    "C05": "proof: get_protocol/setter/handle_i_version against select(major,minor); agreement on normal and exceptional exits; type gates per version (the dispatch consults the active module's enums; the enums themselves are pinned to the documented type numbers 0..14 / 0..17 / 0..28 / 0..28 / 0..33 and stream 0..5, since which numbers exist is specification data); which outcome a message has is a clause of its own (outcome-as-specified)",
    "C06": "proof: exact write-log postconditions (ghost log) of every handler incl. version query and failure prefixes; which outcomes the version handler may have while the version is unknown (it returns normally only if it made the version known) is a property clause of this check",
    "C07": "proof: flush loop invariant (released gone / only that node / each released entry written once via ghost counter) and wake handler contracts",
    "C08": "proof: exceptional postcondition of the flush loop and its callers (written ones gone, unwritten stay, no repeat) + the release's normal postcondition (a release whose writes succeed leaves nothing of that node: 'written at a later wake'); the outgoing set handler parks a command under its own (node, child, value type) key; bounded native fault enumeration (the property's own quantifier) stands in when the loop is restructured",
    "C09": "proof: rely/guarantee at the await inside the flush loop (shared buffer havocked under the rely before the callee post): no entry is removed whose message the flush did not write, neither before it suspends in the write nor after it resumes; park branch proved await-free; the destination stays flagged sleeping for the whole release (precondition proved at every call site, loop invariant), so a racing send can only park; bounded sweep of 42 native schedules (keys differing in child or in value type only)",
    "C10": "proof: presentation-request wrapper contract on every decorated handler: one request iff no marker, marker only after a successful write, re-armed by node presentation; the contract of Gateway.send the wrapper is verified against is proved in the same check on Gateway.send and the outgoing handlers",
    "C11": "proof: handle_i_id_request contract (range, fresh, registered before write, response shape, failure frames) over an arbitrary registry; the contract of Gateway.send the handler is verified against is proved in the same check",
    "C12": "proof: trichotomy contract of Gateway.send over all commands/buffer flag/versions; outgoing handlers proved on their bodies; 'held and handed to the transport at the next wake' = the release contract's each-released-once / unwritten-stay clauses proved on the release loop (2.0-2.2)",
    "C13": "proof of the repository-code parts (save loop serialises every node; make_node/make_child restore every named attribute; legacy hooks; reach domain of validated fields inside their accept domain incl. the battery handler's range); marshmallow's and json's own field round trips are assumed contracts cross-checked by a bounded native round trip",
    "C14": "proof: exceptional postcondition raises-only{PersistenceReadError} of Persistence.load over an arbitrary file state and an arbitrary parsed JSON value, with the real schema hooks and constructors; missing and empty file cases",
    "C15": "crash Hoare logic: one crash-condition obligation per file-system effect met by the symbolic execution of save; the truncate-in-place and partial-write crash points fail and are recorded known findings (not repairable without editing the suite), the remaining ones are discharged",
    "C16": "proof: contracts of __aenter__/__aexit__/start/stop/save and both saver closures over ghost counters (live tasks, completed writes, connection); cancellation as an exceptional outcome of the saver's awaits",
    "C17": "proof: StreamTransport.read/write/connect/disconnect for both concrete transports over ghost byte streams; every exception path ends in a TransportError; chunking independence is the assumed readuntil contract",
    "C18": "proof: topic/line mapping both ways and their composition for all prefixes and payloads, subscriptions, publish log, FIFO queue contract, receive task leaves its loop only cancelled or after a broker error that it enqueues (an undecodable payload is enqueued as an error and reception goes on), disconnect does not raise",
    "C19": "proof: overrides: all versions proved against specifications derived from the same leaf specs + structural equality of the derived specs per (command,type) and table monotonicity; inherited code: 354 relational units (the same function under two adjacent versions from one symbolic pre-state: overlapping paths must agree on outcome and pre-state-determined heap effects; a candidate difference counts only if it replays natively under both versions)",
}
NOTE = ("Trusted: the VC generator pyvc (written for this task), z3/cvc5, and the assumed library contracts listed in each evidence file "
        "(A-TYPES, A-CLOSED, A-TRANSPORT, A-ENUM, A-STR, A-NUM, A-MM, A-AV, A-CLOCK). The bounded native differential run in the same check is a "
        "cross-check of the engine, never counted as proved.")
checks, na = [], []
for p in props:
    pid = p["id"]
    if os.path.exists(os.path.join(V, "props", f"{pid}.py")) and pid in LEVEL_TEXT:
        checks.append({
            "property_id": pid,
            "quick_cmd": f"./check {pid} --tier quick",
            "thorough_cmd": f"./check {pid} --tier thorough",
            "evidence_file": f"evidence/{pid}.json",
            "replay_cmd_template": f"./check {pid} --replay {{path}}",
            "engine": "pyvc",
            "level_claimed": {"category": "other" if pid == "C15" else "proof", "text": LEVEL_TEXT[pid], "design_ref": f"DESIGN.md section 8 ({pid})"},
            "level_note": NOTE,
            "technique": "contract-based deductive verification: sidecar contracts on the real functions, VCs generated from the parsed source by pyvc, discharged by z3 (cvc5 for unknowns)",
        })
    else:
        na.append({"property_id": pid, "reason": "check not built yet in this session (see DESIGN.md section 14 for status)"})
fixes = subprocess.run(["git", "-C", "/repo", "log", "--format=%H %s", "--grep=^fix:"], capture_output=True, text=True).stdout.strip().splitlines()
m = {
    "version": 1,
    "setup_cmd": "./setup.sh",
    "hooks": {"guard": "AIOMYSENSORS_VERIF", "enable": "none needed: contracts are sidecars under /verif/contracts; the repository source is parsed on every run, never instrumented",
              "baseline_off_cmd": "cd /repo && /venv/bin/python -m pytest -ra -q -p no:cacheprovider --timeout=900",
              "source_commits": [f.split()[0] for f in fixes], "add_only": True},
    "engines": [{"name": "pyvc", "path": "pyvc/", "serves_properties": [c["property_id"] for c in checks],
                 "kind_free_text": "symbolic interpreter over the repository AST -> verification conditions -> z3 5.1.0 / cvc5 1.0.3; sidecar contracts in contracts/"}],
    "checks": checks,
    "notes": "hooks.source_commits lists the unguarded fix: commits (genuine defects repaired); no instrumentation hooks exist.",
    "not_applicable": na,
}
json.dump(m, open(os.path.join(V, "MANIFEST.json"), "w"), indent=1)
print(len(checks), "checks;", len(na), "not applicable")
