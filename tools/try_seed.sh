#!/bin/bash
# tools/try_seed.sh <worktree> <property> [more properties...]: validate a seeded change that is applied in a scratch
# worktree (patch.diff and demo_*.py inside it) and run the listed checks against that worktree (VERIF_REPO; /repo untouched).
set -u
W=$1; shift
PROPS="$@"
N=$(basename $W)
cd $W || exit 9
DEMO=$(ls demo_*.py | head -1)
git diff -- src > /tmp/$N.patch
[ -s /tmp/$N.patch ] || { cp patch.diff /tmp/$N.patch; git apply /tmp/$N.patch; }
echo "== suite with change: $(PYTHONPATH=$W/src /venv/bin/python -m pytest -q -p no:cacheprovider 2>&1 | tail -1)"
PYTHONPATH=$W/src /venv/bin/python $DEMO >/tmp/$N.demo_with 2>&1; echo "== demo with change: exit=$? $(tail -1 /tmp/$N.demo_with | cut -c1-160)"
git apply -R /tmp/$N.patch   # (not git stash: the stash is shared by all worktrees of the repository)
PYTHONPATH=$W/src /venv/bin/python $DEMO >/tmp/$N.demo_without 2>&1; echo "== demo without change: exit=$? $(tail -1 /tmp/$N.demo_without | cut -c1-160)"
git apply /tmp/$N.patch
cd "$(dirname "$0")/.." 2>/dev/null || cd /verif
for P in $PROPS; do
  VERIF_REPO=$W VERIF_EVIDENCE_DIR=/tmp/ev_$N ./check $P > /tmp/$N.check_$P 2>&1; echo "== check $P: exit=$?"
  grep -E "^(VIOLATION|UNDECIDED|ENGINE|UNSUPPORTED|STALE|KNOWN|C[0-9]+:)" /tmp/$N.check_$P | cut -c1-300 | head -6
done
