#!/bin/bash
# tools/try_seed.sh <seed-dir-name> <property> [extra properties...]: validate a seeded change and run the checks against it.
# The seed lives in /tmp/seed_<name> (a scratch worktree with the change applied, patch.diff and demo_*.py).
set -u
NAME=$1; shift
PROPS="$@"
W=/tmp/seed_$NAME
cd $W || exit 9
DEMO=$(ls demo_*.py | head -1)
git diff -- src > /tmp/seed_$NAME.patch
[ -s /tmp/seed_$NAME.patch ] || cp patch.diff /tmp/seed_$NAME.patch
echo "== suite with change"; PYTHONPATH=$W/src /venv/bin/python -m pytest -q -p no:cacheprovider 2>&1 | tail -1
echo "== demo with change"; PYTHONPATH=$W/src /venv/bin/python $DEMO >/tmp/seed_$NAME.demo_with 2>&1; echo "exit=$?"; tail -2 /tmp/seed_$NAME.demo_with | cut -c1-200
git stash -q -- src
echo "== demo without change"; PYTHONPATH=$W/src /venv/bin/python $DEMO >/tmp/seed_$NAME.demo_without 2>&1; echo "exit=$?"; tail -1 /tmp/seed_$NAME.demo_without | cut -c1-200
git stash pop -q
cd /verif
git -C /repo apply /tmp/seed_$NAME.patch || { echo "patch does not apply to /repo"; exit 8; }
for P in $PROPS; do
  echo "== check $P on the seeded tree"; ./check $P > /tmp/seed_$NAME.check_$P 2>&1; echo "exit=$?"; grep -E "^(VIOLATION|UNDECIDED|ENGINE|UNSUPPORTED|STALE|KNOWN|C[0-9]+:)" /tmp/seed_$NAME.check_$P | cut -c1-330 | head -8
done
git -C /repo checkout -- .
git -C /repo status --short | head -3
