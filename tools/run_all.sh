#!/bin/bash
# runs every check (quick tier unless $1 = thorough) and prints one line per property
cd "$(dirname "$0")/.."
tier=${1:-quick}
./setup.sh >/dev/null 2>&1
mkdir -p .runlogs
run() { ./check "$1" --tier "$tier" > .runlogs/$1.log 2>&1; echo "$1 exit=$? $(grep -cE '^STALE' .runlogs/$1.log) stale; $(grep -E "^$1:" .runlogs/$1.log | tail -1)"; }
export -f run; export tier
printf "%s\n" C01 C02 C03 C04 C05 C06 C07 C08 C09 C10 C11 C12 C13 C14 C15 C16 C17 C18 C19 | xargs -P 4 -I{} bash -c 'run {}'
