#!/bin/bash
# tools/matrix.sh "<seed names>" "<properties>" [prefix]: run every listed check against every listed seeded tree (VERIF_REPO=/tmp/<prefix>_X).
cd /verif
PFX=${3:-mx}
OUT=/tmp/ev_matrix_$PFX
mkdir -p $OUT
for S in $1; do for P in $2; do
  VERIF_REPO=/tmp/${PFX}_$S VERIF_EVIDENCE_DIR=$OUT/ev nice -n 10 ./check $P > $OUT/$S.$P.txt 2>&1; echo "$S $P exit=$?" >> $OUT/summary.txt
done; done
echo "matrix done" >> $OUT/summary.txt
