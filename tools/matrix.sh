#!/bin/bash
# tools/matrix.sh "<patch files or seeded ids>" "<properties>" [outdir]
# For every patch: scratch worktree of /repo HEAD under /tmp, apply the patch, run every listed check against it
# (VERIF_REPO, evidence to the out directory - never to /verif/evidence), remove the worktree.
# Output: <outdir>/<name>.<Cxx>.txt and <outdir>/summary.txt (one line "<name> <Cxx> exit=<n>" each).
cd "$(dirname "$0")/.."
V=$(pwd)
OUT=${3:-/tmp/ev_matrix}
PAR=${MATRIX_PAR:-4}
mkdir -p "$OUT"
./setup.sh >/dev/null 2>&1
one() {
  S=$1; P=$2; W=$3; OUT=$4
  VERIF_REPO=$W VERIF_EVIDENCE_DIR=$OUT/ev_$S nice -n 5 ./check $P > $OUT/$S.$P.txt 2>&1
  echo "$S $P exit=$?" >> $OUT/summary.txt
}
export -f one
for item in $1; do
  if [ -f "$item" ]; then PATCH=$(realpath "$item"); S=$(basename "$item" .diff); else PATCH=$V/seeded/$item/patch.diff; S=$item; fi
  W=/tmp/mxw_$S
  git -C /repo worktree remove --force $W >/dev/null 2>&1
  git -C /repo worktree add -q --detach $W HEAD || { echo "$S worktree failed" >> $OUT/summary.txt; continue; }
  if ! git -C $W apply "$PATCH"; then echo "$S patch-does-not-apply" >> $OUT/summary.txt; git -C /repo worktree remove --force $W; continue; fi
  printf "%s\n" $2 | xargs -P $PAR -I{} bash -c "one $S {} $W $OUT"
  git -C /repo worktree remove --force $W
  rm -rf $OUT/ev_$S/C*.json
done
echo "matrix done" >> $OUT/summary.txt
