#!/bin/bash
# tools/matrix.sh "<seed names>" "<properties>": run every listed check against every listed seeded tree (VERIF_REPO=/tmp/seed_X).
cd /verif
mkdir -p /tmp/ev_matrix
for S in $1; do for P in $2; do
  VERIF_REPO=/tmp/seed_$S VERIF_EVIDENCE_DIR=/tmp/ev_matrix ./check $P > /tmp/ev_matrix/$S.$P.txt 2>&1; echo "$S $P exit=$?" >> /tmp/ev_matrix/summary.txt
done; done
echo "matrix done" >> /tmp/ev_matrix/summary.txt
