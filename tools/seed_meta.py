#!/usr/bin/env python3
"""Writes seeded/<id>/meta.json: re-validates the seed (suite + demo with and without the change) in a scratch worktree and
records which checks report it (from a matrix run directory written by tools/matrix.sh, default /tmp/ev_matrix)."""
import json
import os
import re
import subprocess
import sys

V = os.path.dirname(os.path.dirname(os.path.abspath(__file__)))
NEEDS = {
    "C01": "a payload that contains the ';' delimiter (unbounded split + zip drops the surplus pieces)",
    "C02": "a stream command (4) with type 3 or 4 and a child id other than 255: the id-request exemption no longer checks that the command is internal",
    "C03": "an internal command (3) whose message type field is not an integer: a bare int() in the cross-field check raises ValueError, which marshmallow does not collect",
    "C04": "a four-message history on one child: node presentation, child presentation, set, the same child presented again with the same type (values survive)",
    "C05": "a rejected version report (invalid version payload in I_VERSION or a node-0 presentation): the version is stored before it is validated",
    "C06": "protocol 2.x, a node flagged sleeping, a stored value, then a req from that node: the reply is parked instead of written",
    "C07": "protocol 2.0/2.1: heartbeat (sleeping), buffered set, node re-presentation (resets sleeping), next heartbeat skips the flush",
    "C08": "at least two buffered commands for one sleeping node, a write failure at a non-first position of the flush, and a later wake (entries are only popped after the whole flush)",
    "C09": "a concurrent send for exactly the key whose line is suspended in transport.write during the flush (the buffered message is mutated in place, the identity guard still holds)",
    "C10": "protocol 2.x and a transport write fault on the presentation request itself (the marker is stored before the write)",
    "C11": "a write that fails after the id response went out (or inspecting the registry at write time): the node is registered only after the send",
    "C12": "protocol 2.x, a sleeping destination, and a set and a req for the same (node, child, type) sent before the next wake (req now parks under the same key)",
    "C13": "protocol 2.2 (whose heartbeat handler overrides the 2.0 one) and a negative heartbeat payload: stored and saved, but the schema now demands heartbeat >= 0 on load",
    "C14": "an otherwise valid node record whose battery_level is a non-numeric string, NaN or Infinity: the new clamp in the pre_load hook runs a bare int() before marshmallow's own validation",
    "C15": "a crash between the new 'keep a backup' rename of the old file and the open of the new one: the persistence file is absent and the next start creates an empty one",
    "C16": "leaving the context while the saver is inside a save: asyncio.shield keeps the inner save running as a detached task, which can overwrite the final save",
    "C18": "an incoming stream message (command 4) over MQTT: the subscriptions are now built with range(4)",
    "C17": "undecodable bytes in a complete line or in the partial bytes at EOF (the error constructor decodes them)",
    "C19": "under 2.x only: node presentation, child presentation, node presentation again (children are carried over; 1.x wipes them)",
    # second round: each change had to need something specific to manifest and avoid the most obvious way of breaking the property
    "C01b": "a payload longer than 25 characters in a message for a node other than 0: the encoder cuts it 'like the radio frame'",
    "C02b": "protocol 2.2 only (its module gets an own Command enum with the reserved values 5-7) and a line with command 5, 6 or 7 and a child id other than 255",
    "C03b": "a known node and a battery payload that float() parses to NaN: the range test was rewritten with < / > (both false for NaN) and round() moved out of the try",
    "C04b": "2.x only: a known node with children, an outstanding presentation request for it, then its node presentation: the old children are carried over",
    "C05b": "node 0 already registered (persistence, or presented under another gateway version) with the same version string: its presentation no longer sets the gateway version",
    "C06b": "a version report (I_VERSION) with an invalid payload while the version is unknown: I_VERSION was added to the messages that do not trigger the version query",
    "C07b": "a req from a node flagged sleeping for a stored value: the reply is now sent with buffering allowed and lands in the sleep buffer (a non-wake message changes the buffer)",
    "C08b": "a write fault during a release and a later wake with no new command buffered in between: a per-node 'pending' mark is cleared before the release and gates later releases",
    "C09b": "2.2 only, at least two buffered keys, a send for a not yet written key while the release is suspended in a write: the wake handler clears node.sleeping for the duration of the release",
    "C10b": "2.x: an outstanding presentation request for a node and a wake of that node: the release now also writes (and forgets) the request markers",
    "C11b": "a sparse registry whose highest id is 254 or 255 (static ids, persistence): the capacity guard counts nodes instead of checking the computed id",
    "C12b": "2.x: a second presentation request (internal type 19) while one is pending, sent through Gateway.send: silently dropped - neither written, parked nor failed",
    "C13b": "a node (not a child) whose stored type is 0: the legacy-null default moved after the key rename and tests falsiness instead of None",
    "C14b": "an otherwise valid record whose battery_level is an int outside 0..100: the shared error template has a placeholder marshmallow's Range does not supply (KeyError)",
    "C16b": "leaving the context while the saver is inside a save: asyncio.shield keeps the inner save running (same idea as the first C16 seed, found independently)",
    "C17b": "a line longer than the StreamReader limit followed by further reads: the overrun handler drains err.consumed bytes, leaving the stream inside a line",
    "C18b": "more than 100 broker messages before a read: the receive queue got maxsize=100 and put_nowait raises QueueFull inside the receive task",
    # third round: each change had to be disguised as an optimisation, a hardening, a refactoring or support for a firmware feature
    "C01c": "a payload containing a character str.isprintable() rejects (tab, no-break space, ESC): the decoder now filters 'line noise' before splitting",
    "C02c": "two lines on one schema: a legal id request with child c, then another internal message with the same child c: a per-schema cache keyed (child, command) skips the cross-field rule",
    "C03c": "2.2 only: a known node whose stored protocol_version AwesomeVersion cannot compare ('', 'unknown', '2.3.2-beta 1'), then its heartbeat response: AwesomeVersionCompareException escapes",
    "C04c": "node presentation, child presentation, node presentation again, then a set/req for that child: a flat (node, child) index on the gateway still holds the orphaned child",
    "C05c": "1.5 rules accept internal type 15-17 (filling a class-level handler table the 1.4 and 1.5 classes share), then 1.4 rules become active (lower report or another gateway): the type is still accepted",
    "C06c": "a node flagged for reboot repeats exactly the value already stored: the new 'nothing to update' early return also skips the reboot command",
    "C07c": "wake, buffered set, node re-presentation (fresh Node, sleeping False), wake: setting the flag moved into the release, which returns early 'the first time a node says it sleeps'",
    "C08c": "a release write that fails with a TransportError other than TransportFailedError: the entry is popped before the write and the rollback only catches TransportFailedError",
    "C09c": "2.2, two buffered keys, a send for the not yet written key during the suspended release write: node.sleeping is False for the duration of the release (same idea as C09b, found independently)",
    "C10c": "2.x: a known node with an outstanding request (missing child), its node presentation, then the missing child again: the marker is only cleared for unknown nodes",
    "C11c": "a registry into which a lower id was inserted after a higher one (static ids, file order): next(reversed(nodes)) + 1 hands out an id that is taken",
    "C12c": "2.x: Gateway.send of an I_PRESENTATION request while a marker for that node is pending: returns without writing, parking or failing (same idea as C12b)",
    "C13c": "a node whose stored type is 0: the table-driven legacy defaults use `value or default` after the key rename (same effect as C13b)",
    "C14c": "a node or child record that is a non-empty JSON string or a list of non-pairs: the pre_load hook now copies with dict(data), which raises ValueError",
    "C16c": "leaving the context while the saver is inside a save: asyncio.shield (third independent find of this change)",
    "C17c": "a stream that ends mid-line with an invalid UTF-8 tail: the TransportReadError constructor now decodes the partial bytes for its message",
    "C18c": "a read already waiting on the empty queue when the broker error arrives: the error is no longer queued, only a flag is set for later reads",
    "C19c": "S_HEATER/S_CUSTOM child and a value type listed for it in 1.4 but not later (same change as C19b, found independently)",
    # fourth round: the change had to act indirectly, in a file or function the property's text does not point at
    "C01d": "a payload with leading whitespace: Message.__init__ now strips the payload (both encode and decode pass through the constructor)",
    "C02d": "protocol 2.2 and command 5-7 with a child other than 255: an own Command enum in protocol_22 (same change as C02b, found independently)",
    "C03d": "a version report that the version library accepts but that has no minor section ('2', 'latest'): get_protocol builds AwesomeVersion(f'{major}.{minor}') and the comparison raises AwesomeVersionCompareException",
    "C04d": "child presentation, set, the same child presented again with the same type: Node.add_child now updates the child in place and keeps its values",
    "C05d": "2.x active, node 0 known, a gateway presentation with another version: the 2.0 handle_presentation override returns early for known nodes and never reaches handle_i_version",
    "C06d": "an unusable version report while the version is unknown: the setter stores the string before get_protocol validates it, so the version query is never sent again (same effect as the first C05 seed, through C06's clause)",
    "C07d": "a 1.x node restored from persistence with sleeping=true: Node.__init__ drops the flag for protocol versions starting with '1.'",
    "C08d": "a write fault during a release: the shared internal dispatcher (handle_internal of 1.4) now swallows TransportError as 'best effort', listen() yields normally",
    "C10d": "2.x: an outstanding request for node N, then a gateway presentation or version reply: handle_i_version clears all request markers",
    "C11d": "a registry whose highest id is exactly 253: MAX_NODE_ID became range(1, 254)[-1] == 253 in model/const.py",
    "C12d": "any outgoing stream message (command 4): the pass-through handlers moved to the base class, handle_stream became a body-less 'abstract' stub that nothing enforces",
    "C13d": "node 255 registered, then an id request: the capacity guard counts nodes, id 256 is handed out and saved, the file no longer loads (same change as C11b, seen through C13)",
    "C14d": "a child record with child_id outside 0..254: a new range check in Child.__init__ raises ValueError, which load() does not convert",
    "C16d": "a stream transport whose peer stalls the close for more than 5 s: disconnect waits with asyncio.wait(timeout), which does not cancel, and leaves the wait_closed() task behind",
    "C17d": "an undecodable complete line or a stream cut inside a multi-byte character: TransportReadError's constructor decodes the partial bytes (exceptions.py)",
    "C18d": "an MQTT payload containing a line-boundary character (newline, U+2028, \\x1c ...): MessageSchema.to_dict now takes the first of splitlines()",
    "C19d": "I_LOG_MESSAGE / I_GATEWAY_READY with a child id other than 255: NODE_ID_REQUEST_TYPES was widened in protocol_14 only, the newer modules keep their own copies",
    # fifth round: the change had to exploit a Python subtlety or a boundary value
    "C01e": "a payload with leading whitespace: to_dict strips every field (int() tolerates padding, the payload does not)",
    "C02e": "child id 255 spelled other than '255' ('0255', '+255', ' 255', '2_55') with command set/req: CommandField compares the raw text with '255', ChildIdField parses it",
    "C03e": "a known node and a battery payload that parses to NaN (same change as C03b, found independently)",
    "C04e": "a child presented a second time: add_child uses dict.setdefault, whose default is built eagerly and thrown away when the key exists",
    "C05e": "an empty version report: the setter selects get_protocol(value or DEFAULT), '' is falsy, the report is accepted and resets the rules to 1.4",
    "C06e": "version unknown and a presentation/set/req whose type number is 9 or 14: the exemption set holds IntEnum members, which equal plain ints of other enums, and the command check was dropped",
    "C07e": "a sleeping destination and a set payload that ends in whitespace: send() now re-loads its own dump (rstrip) and parks the re-loaded copy",
    "C08e": "two or more buffered commands and one failing write: the release writes them with asyncio.gather, which re-raises at once without the pops, so the written ones are released again",
    "C09e": "a send for the key whose write is in flight: the parked message is refreshed in place through dict.setdefault (aliasing), the identity guard still holds (same idea as the first C09 seed)",
    "C10e": "an outstanding request and a presentation of child id 0: the marker key is built with `child_id or 255`, 0 is falsy, the child presentation clears the node's marker",
    "C11e": "a registry whose highest id is exactly 253: `next_id not in range(1, MAX_NODE_ID)` excludes 254 (exclusive end)",
    "C12e": "a set for a sleeping node whose ack differs from its type: the parked copy is built with message_type and ack swapped positionally (both ints)",
    "C13e": "a child value that is the empty string (a set with an empty payload): the legacy hook filters the values with `if value`",
    "C14e": "a top-level key that str.isdigit() accepts and int() rejects ('²', '①'): load sorts the records with a key function that raises ValueError",
    "C16e": "the body's task is cancelled while the saver is inside a save: cancel_save re-raises CancelledError when current_task().cancelling(), stop() never reaches the final save",
    "C17e": "a complete line that is not valid UTF-8: `getattr(err, 'object', err.partial)` evaluates its default eagerly, UnicodeDecodeError has no .partial",
    "C18e": "an MQTT payload containing a line-boundary character (U+2028, \\x0c, \\x1c ...): _parse_message_to_mqtt takes the first of splitlines()",
    "C19e": "a node presentation with an empty payload: the shared 1.4 handler stores `payload or gateway.protocol.VERSION`, so the registry depends on the version",
    # sixth round: the change had to be one of control flow or exception handling (try/except/else/finally, early returns, ordering)
    "C01f": "a payload that contains ';': to_dict splits without maxsplit and pairs the pieces with zip(strict=True), the surplus pieces raise",
    "C02f": "an id request/response (internal type 3 or 4) whose child id is outside 0..255: the child range check moved behind the id-request early return",
    "C03f": "a node-0 (gateway) presentation with an unusable version payload: the ValueError -> InvalidMessageError translation moved from handle_i_version to the internal dispatcher, which the presentation path does not pass",
    "C04f": "version unknown and a message for an unknown node or child: the wrapper's finally clause reads `handled`, which is unbound when the handler raised -> UnboundLocalError instead of the error naming the node/child",
    "C05f": "a rejected version report: the setter stores the string before get_protocol validates it (and returns early when the same string comes again)",
    "C06f": "version unknown and a message whose handler raises something other than Missing*Error (bad payload): try/finally became try/except(Missing*) + success path, the version query is dropped",
    "C07f": "2.2 and a heartbeat response from a known node: the 2.2 override delegates to super(), i.e. to the 2.0 handler, which marks the node sleeping and releases its buffer",
    "C08f": "a write fault in the middle of a release and a later wake: the pops moved behind the whole loop into the try's else clause, which a raised write skips - the commands written before the fault are written again",
    "C09f": "at least two buffered keys and a send for the not yet written one while the release is suspended in a write: the release pops unconditionally before it writes, taking out the newer value and writing the snapshot's older one",
    "C10f": "2.x, an outstanding request for node N, then any successfully handled message from N (a set, a child presentation): the marker is cleared in the wrapper's else clause",
    "C11f": "a write fault (or a cancellation) on the id response: `except BaseException` removes the freshly registered node again, the next request hands out the same id",
    "C12f": "two or more commands held for a sleeping node and a write fault during the release: all entries are popped up front, the ones not yet written are neither held nor written",
    "C13f": "a registry that contains node 254 (or 255) and an id request: the placeholder is registered in a finally clause, also on the TooManyNodesError path - node 255/256 is saved and the file does not load",
    "C14f": "a persistence file that is not valid UTF-8: json.loads moved to the second try and the first one now catches OSError only, so the UnicodeDecodeError (a ValueError) raised by reading the file escapes load()",
    "C16f": "leaving the context before the saver task has run for the first time: suppress(CancelledError) moved into the saver's body, which a task cancelled before its first step never enters; the bare `await task` re-raises",
    "C17f": "an OS-level error raised by writer.drain(): drain moved to the try's else clause, outside the except OSError",
    "C18f": "an undecodable payload followed by further broker messages: the decode try was flattened outside the async for, the receive task ends after reporting the first one",
    "C19f": "2.x only, a message that is rejected as invalid (bad battery/heartbeat/version payload) from a known node: handle_missing_node_child also catches InvalidMessageError and writes a presentation request; 1.x writes nothing",
    # seventh round: the change had to be one of DATA (a constant, a table, a field declaration, a key, an except tuple), not of control flow
    "C01g": "a payload longer than 25 characters: MessageSchema.payload got validate.Length(max=25) (validators run on load only, so dump still encodes it)",
    "C02g": "a line whose node id is an integer outside 0..255: the Range validator's error template got a placeholder marshmallow does not supply -> KeyError instead of a rejection",
    "C03g": "a line whose node id is an integer outside 0..255: same broken error template as C02g (found independently), KeyError escapes listen()",
    "C04g": "a battery report of 0 (or one that rounds to 0) from a known node: the accepted range became 1..100, the legal report is rejected and not recorded",
    "C05g": "protocol 2.2 active and an internal message of type 30: the member I_SIGNAL_REPORT_REVERSE was removed from the 2.2 Internal enum, a type that exists in 2.2 is refused",
    "C06g": "version unknown and a version reply with an unusable payload: I_VERSION was added to the tuple of types exempt from the version query",
    "C07g": "two set commands for one child of a sleeping node that differ in the value type: the buffer key's third component became message.command (always 1)",
    "C08g": "the same key change as C07g (found independently): two value types for one child share a slot, the displaced command is never written, with or without a write fault",
    "C09g": "the same key change as C07g (found independently), seen through the race: a racing send for (child, other type) displaces the entry the release is about to write",
    "C10g": "2.x, an outstanding request for node N and a child presentation from N: the marker is cleared under key (node, 255, 19) by every presentation, not only the node's own",
    "C11g": "an id request whose child id is not 255: the answer is built with child_id=SYSTEM_CHILD_ID instead of the request's child id",
    "C12g": "two set commands for one child of a sleeping node with different value types: the buffer key lost its third component, the second displaces the first",
    "C13g": "a sketch name, sketch version or child description longer than 25 characters (nothing on the receive path limits them): the schema fields got validate.Length(max=25), save writes what load refuses",
    "C14g": "an otherwise valid record whose battery_level is an int outside 0..100: the Range validator's error template uses {value}, which marshmallow does not supply -> KeyError",
    "C16g": "leaving the context while the saver is not asleep (not yet started, or inside a save): cancel_save suppresses Exception instead of CancelledError (a BaseException)",
    "C17g": "a valid UTF-8 line that starts with a byte order mark: read decodes with 'utf-8-sig', which drops it",
    "C18g": "more than 100 broker messages before a read: the receive queue got maxsize=100 (same change as C18b, found independently)",
    "C19g": "an internal message of type 25 (pong), which exists in 2.0 and 2.1: in the 2.2 enum I_PONG became an alias of value 24, so 25 is no member there",
    "C19b": "a child of type S_HEATER / S_CUSTOM and a set whose value type the 1.4 table lists for it but newer tables do not (or vice versa): shared handle_set consults the per-version table",
    # eighth round: two cooperating sites that each look fine alone (reverting either one restores the property)
    "C03h": "an unusable version report, then any further line: the protocol getter now derives the rules from the stored version (site 1) and the setter stores the version before resolving it (site 2): ValueError escapes every later listen/send",
    "C04h": "a stream message of type n from a known node and the internal message of the same number n (0 battery, 3 id request): a functools.cache'd handler lookup (site 1) also used by handle_stream (site 2) keys IntEnum members of two enums as one entry",
    "C06h": "version unknown and an I_VERSION report from a node other than the gateway: the handler stores it on the node (site A) and the version-query wrapper exempts I_VERSION as 'the answer itself' (site B): no query follows",
    "C07h": "2.2 only: wake, parked send, wake that releases something, send before the next pre-sleep notification: the release clears node.sleeping while it delivers and the 2.0 heartbeat handler re-sets it afterwards, the 2.2 override sets it before the release",
    "C08h": "a write fault at a non-first position of a release, then a later wake: handle_set marks the node in a new pending set (site 1), the release returns early for unmarked nodes and unmarks before its loop (site 2)",
    "C09h": "a send for a not yet released key while the release is suspended in a write: the release marks the node awake in a new set and skips vanished keys (site 1), handle_set writes directly for awake nodes (site 2): the stale value goes out after the newer one",
    "C10h": "2.x and a write fault on the presentation request itself, then another rejected message from that node: a new outgoing handle_internal marks the request outstanding before writing (site A), the wrapper now sends through the buffered path (site B)",
    "C12h": "a send for the same (node, child, type) while the release is suspended in the write of the older value: a per-node pending counter counts new keys only (site 1), the release decrements per written message and returns early at zero (site 2): the newer value is never written",
    "C13h": "one long-lived Persistence (or Gateway) that loads a non-empty file twice: NodeSchema remembers the ids it has loaded and refuses duplicates (site 1), Persistence keeps one NodeSchema for all loads and saves (site 2)",
    "C14h": "an otherwise valid record whose battery_level is an int outside 0..100: Node.battery_level became a property whose setter raises ValueError (site 1) and the schema dropped its Range validator as redundant (site 2)",
    "C16h": "MQTT only, the broker connection succeeds and one of the five subscriptions is refused: a new _connected flag set after all subscriptions (site 1) makes the failure cleanup, which now calls disconnect() (site 2), return early: receive task and connection left over",
    "C17h": "a line longer than the 64 KiB limit whose terminator has not arrived yet, then a connection fault: the new _skip_line helper leaves OSError to its caller (site 1), read() awaits it inside the except LimitOverrunError clause, which the sibling except OSError does not guard (site 2)",
    "C18h": "an undecodable payload whose error has been read, then a read on an empty queue: _receive_error remembers the error (site 1) and read() re-raises a remembered error when the queue is empty (site 2) although reception is alive",
}


def sh(cmd, cwd=None, env=None):
    e = dict(os.environ)
    e.update(env or {})
    p = subprocess.run(cmd, shell=True, cwd=cwd, env=e, capture_output=True, text=True)
    return p.returncode, (p.stdout + p.stderr).strip().splitlines()[-1:] or [""]


def main(ids, matrix="/tmp/ev_matrix"):
    for sid in ids:
        d = os.path.join(V, "seeded", sid)
        w = f"/tmp/meta_{sid}"
        sh(f"git -C /repo worktree remove --force {w}")
        sh(f"git -C /repo worktree add -q --detach {w} HEAD")
        demo = [f for f in os.listdir(d) if f.startswith("demo_")][0]
        env = {"PYTHONPATH": f"{w}/src"}
        rc0, out0 = sh(f"/venv/bin/python {d}/{demo}", cwd=w, env=env)
        sh(f"git apply {d}/patch.diff", cwd=w)
        rc_s, out_s = sh("/venv/bin/python -m pytest -q -p no:cacheprovider 2>&1 | tail -1", cwd=w, env=env)
        rc1, out1 = sh(f"/venv/bin/python {d}/{demo}", cwd=w, env=env)
        sh(f"git -C /repo worktree remove --force {w}")
        detected, clean, other = {}, [], {}
        if os.path.isdir(matrix):
            for f in sorted(os.listdir(matrix)):
                m = re.fullmatch(rf"{sid}\.(C\d+)\.txt", f)
                if not m:
                    continue
                txt = open(os.path.join(matrix, f)).read()
                vio = sorted(set(re.findall(r"^VIOLATION property=\S+ replay=\S+ obligation=(\S+)", txt, re.M)))
                if vio:
                    detected[m.group(1)] = vio
                elif re.search(r"^(UNDECIDED|ENGINE-ERROR)", txt, re.M):
                    other[m.group(1)] = re.findall(r"^(?:UNDECIDED|ENGINE-ERROR)[^\n]*", txt, re.M)[0][:200]
                else:
                    clean.append(m.group(1))
        meta = {
            "breaks_property": sid[:3],
            "needs_to_manifest": NEEDS.get(sid, ""),
            "written_by": "independent sub-agent given only the property text and a scratch worktree",
            "validated": {
                "suite_with_change": out_s[0], "demo_without_change": {"exit": rc0, "last_line": out0[0][:200]},
                "demo_with_change": {"exit": rc1, "last_line": out1[0][:200]},
                "commands": [f"cd <worktree of /repo main> && PYTHONPATH=src /venv/bin/python seeded/{sid}/{demo}   # expect PASS",
                             f"git apply seeded/{sid}/patch.diff && PYTHONPATH=src /venv/bin/python -m pytest -q -p no:cacheprovider   # expect 273 passed",
                             f"PYTHONPATH=src /venv/bin/python seeded/{sid}/{demo}   # expect FAIL",
                             f"VERIF_REPO=<worktree> VERIF_EVIDENCE_DIR=/tmp/ev ./check {sid[:3]}   # expect exit 1 with a VIOLATION line"],
            },
            "checks_reporting_a_violation": detected, "checks_clean": clean, "checks_other_nonzero": other,
        }
        json.dump(meta, open(os.path.join(d, "meta.json"), "w"), indent=1)
        print(sid, "suite:", out_s[0][:40], "| demo without:", rc0, "| with:", rc1, "| detected by:", sorted(detected), "| other:", sorted(other))


def index():
    """seeded/INDEX.md: one line per stored seed - what it needs to manifest and which obligations of its own check report it."""
    rows = []
    for sid in sorted(os.listdir(os.path.join(V, "seeded"))):
        p = os.path.join(V, "seeded", sid, "meta.json")
        if not os.path.isfile(p):
            continue
        m = json.load(open(p))
        own = m["checks_reporting_a_violation"].get(m["breaks_property"], [])
        others = sorted(k for k in m["checks_reporting_a_violation"] if k != m["breaks_property"])
        val = m["validated"]
        ok = val["suite_with_change"].startswith("273 passed") and val["demo_without_change"]["exit"] == 0 and val["demo_with_change"]["exit"] != 0
        rows.append(f"| {sid} | {m['needs_to_manifest']} | {'; '.join('`' + o + '`' for o in own[:4]) + (' ...' if len(own) > 4 else '') or '-'} | "
                    f"{', '.join(others) or '-'} | {'yes' if ok else 'NO'} |")
    with open(os.path.join(V, "seeded", "INDEX.md"), "w") as f:
        f.write("# Stored property-breaking changes\n\nGenerated by `tools/seed_meta.py` from `seeded/*/meta.json` (validation: suite passes with the change, "
                "demo passes without it and fails with it; obligations: from the last matrix run of every seed against its own check).\n\n"
                "| seed | what it takes to manifest | obligations of its own check that report it | other checks that report it (when run) | validated |\n|---|---|---|---|---|\n")
        f.write("\n".join(rows) + "\n")


if __name__ == "__main__":
    args = sys.argv[1:]
    mdir = "/tmp/ev_matrix"
    if args and args[0] == "--matrix":
        mdir, args = args[1], args[2:]
    if args != ["--index-only"]:
        main(args or sorted(d for d in os.listdir(os.path.join(V, "seeded")) if os.path.isdir(os.path.join(V, "seeded", d))), mdir)
    index()
