#!/usr/bin/env python3
"""Writes seeded/<id>/meta.json: re-validates the seed (suite + demo with and without the change) in a scratch worktree and
records which checks report it (from a matrix run directory, default /tmp/ev_matrix_mx)."""
import json
import os
import re
import subprocess
import sys

V = os.path.dirname(os.path.dirname(os.path.abspath(__file__)))
NEEDS = {
    "C01": "a payload that contains the ';' delimiter (unbounded split + zip drops the surplus pieces)",
    "C02": "a stream command (4) with type 3 or 4 and a child id other than 255: the id-request exemption no longer checks that the command is internal",
    "C03": "an internal command (3) whose message type field is not an integer: a bare int() in the cross-field check raises ValueError, which marshmallow does not collect",
    "C04": "a four-message history on one child: node presentation, child presentation, set, the same child presented again with the same type (values survive)",
    "C05": "a rejected version report (invalid version payload in I_VERSION or a node-0 presentation): the version is stored before it is validated",
    "C06": "protocol 2.x, a node flagged sleeping, a stored value, then a req from that node: the reply is parked instead of written",
    "C07": "protocol 2.0/2.1: heartbeat (sleeping), buffered set, node re-presentation (resets sleeping), next heartbeat skips the flush",
    "C08": "at least two buffered commands for one sleeping node, a write failure at a non-first position of the flush, and a later wake (entries are only popped after the whole flush)",
    "C09": "a concurrent send for exactly the key whose line is suspended in transport.write during the flush (the buffered message is mutated in place, the identity guard still holds)",
    "C10": "protocol 2.x and a transport write fault on the presentation request itself (the marker is stored before the write)",
    "C11": "a write that fails after the id response went out (or inspecting the registry at write time): the node is registered only after the send",
    "C12": "protocol 2.x, a sleeping destination, and a set and a req for the same (node, child, type) sent before the next wake (req now parks under the same key)",
    "C13": "protocol 2.2 (whose heartbeat handler overrides the 2.0 one) and a negative heartbeat payload: stored and saved, but the schema now demands heartbeat >= 0 on load",
    "C14": "an otherwise valid node record whose battery_level is a non-numeric string, NaN or Infinity: the new clamp in the pre_load hook runs a bare int() before marshmallow's own validation",
    "C15": "a crash between the new 'keep a backup' rename of the old file and the open of the new one: the persistence file is absent and the next start creates an empty one",
    "C16": "leaving the context while the saver is inside a save: asyncio.shield keeps the inner save running as a detached task, which can overwrite the final save",
    "C18": "an incoming stream message (command 4) over MQTT: the subscriptions are now built with range(4)",
    "C17": "undecodable bytes in a complete line or in the partial bytes at EOF (the error constructor decodes them)",
    "C19": "under 2.x only: node presentation, child presentation, node presentation again (children are carried over; 1.x wipes them)",
}


def sh(cmd, cwd=None, env=None):
    e = dict(os.environ)
    e.update(env or {})
    p = subprocess.run(cmd, shell=True, cwd=cwd, env=e, capture_output=True, text=True)
    return p.returncode, (p.stdout + p.stderr).strip().splitlines()[-1:] or [""]


def main(ids, matrix="/tmp/ev_matrix_mx"):
    for sid in ids:
        d = os.path.join(V, "seeded", sid)
        w = f"/tmp/meta_{sid}"
        sh(f"git -C /repo worktree remove --force {w}")
        sh(f"git -C /repo worktree add -q --detach {w} HEAD")
        demo = [f for f in os.listdir(d) if f.startswith("demo_")][0]
        env = {"PYTHONPATH": f"{w}/src"}
        rc0, out0 = sh(f"/venv/bin/python {d}/{demo}", cwd=w, env=env)
        sh(f"git apply {d}/patch.diff", cwd=w)
        rc_s, out_s = sh("/venv/bin/python -m pytest -q -p no:cacheprovider 2>&1 | tail -1", cwd=w, env=env)
        rc1, out1 = sh(f"/venv/bin/python {d}/{demo}", cwd=w, env=env)
        sh(f"git -C /repo worktree remove --force {w}")
        detected, clean, other = {}, [], {}
        if os.path.isdir(matrix):
            for f in sorted(os.listdir(matrix)):
                m = re.fullmatch(rf"{sid}\.(C\d+)\.txt", f)
                if not m:
                    continue
                txt = open(os.path.join(matrix, f)).read()
                vio = sorted(set(re.findall(r"^VIOLATION property=\S+ replay=\S+ obligation=(\S+)", txt, re.M)))
                if vio:
                    detected[m.group(1)] = vio
                elif re.search(r"^(UNDECIDED|ENGINE-ERROR)", txt, re.M):
                    other[m.group(1)] = re.findall(r"^(?:UNDECIDED|ENGINE-ERROR)[^\n]*", txt, re.M)[0][:200]
                else:
                    clean.append(m.group(1))
        meta = {
            "breaks_property": sid,
            "needs_to_manifest": NEEDS.get(sid, ""),
            "written_by": "independent sub-agent given only the property text and a scratch worktree",
            "validated": {
                "suite_with_change": out_s[0], "demo_without_change": {"exit": rc0, "last_line": out0[0][:200]},
                "demo_with_change": {"exit": rc1, "last_line": out1[0][:200]},
                "commands": [f"cd <worktree of /repo main> && PYTHONPATH=src /venv/bin/python seeded/{sid}/{demo}   # expect PASS",
                             f"git apply seeded/{sid}/patch.diff && PYTHONPATH=src /venv/bin/python -m pytest -q -p no:cacheprovider   # expect 273 passed",
                             f"PYTHONPATH=src /venv/bin/python seeded/{sid}/{demo}   # expect FAIL",
                             f"VERIF_REPO=<worktree> VERIF_EVIDENCE_DIR=/tmp/ev ./check {sid}   # expect exit 1 with a VIOLATION line"],
            },
            "checks_reporting_a_violation": detected, "checks_clean": clean, "checks_other_nonzero": other,
        }
        json.dump(meta, open(os.path.join(d, "meta.json"), "w"), indent=1)
        print(sid, "suite:", out_s[0][:40], "| demo without:", rc0, "| with:", rc1, "| detected by:", sorted(detected), "| other:", sorted(other))


if __name__ == "__main__":
    main(sys.argv[1:] or sorted(os.listdir(os.path.join(V, "seeded"))))
