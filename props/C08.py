"""C08 - proved on the incoming-handler chain (see contracts/handlers_c.py and DESIGN.md section 8)."""
from . import handlers_common as hc

PROP = "C08"
MIN_OBLIGATIONS = 50
TRUSTED = hc.HANDLER_TRUSTED
ASSUMPTIONS = hc.HANDLER_ASSUMPTIONS
EXPLANATION = ("Every function between the leaf handlers and the dispatch is symbolically executed from the parsed source, once per "
               "protocol version, against a contract derived from the leaf effect specifications (written from the property text) "
               "through the same decorators and dispatch the code uses; callees are replaced by their derived contracts.")


def build(world):
    return hc.build_for(world, PROP)
