"""C08 - proved on the incoming-handler chain (see contracts/handlers_c.py and DESIGN.md section 8)."""
from . import handlers_common as hc
from . import handlers_native as hn

PROP = "C08"
MIN_OBLIGATIONS = 50
TRUSTED = hc.HANDLER_TRUSTED
ASSUMPTIONS = hc.HANDLER_ASSUMPTIONS
EXPLANATION = ("Every function between the leaf handlers and the dispatch is symbolically executed from the parsed source, once per "
               "protocol version, against a contract derived from the leaf effect specifications (written from the property text) "
               "through the same decorators and dispatch the code uses; callees are replaced by their derived contracts.")


def build(world):
    from . import gateway_units as gu
    units = hc.build_for(world, PROP)
    # how a command gets into the buffer: under its own (node, child, value type) key, displacing nothing else; and Gateway.send
    # returning only if no write failed (the clauses of the outgoing contracts that carry C08's id)
    units += [u for u in gu.send_units(world) if "handle_set" in u.name or "Gateway.send[" in u.name]
    return units


def replay(world, ob):
    r = hn.replay(PROP, world, ob)
    if r and r.get("confirmed"):
        return r
    from pyvc import native
    v = native.unit_version(ob["unit"].split("][")[0] + "]") if "[" in ob["unit"] else None
    f, n = fault_scenarios(versions=[v] if v in ("2.0", "2.1", "2.2") else ("2.0", "2.1", "2.2"))
    if f:
        return dict(f, confirmed=True, native_runs=n, note="the solver's model did not replay as is; this fault scenario of the bounded scope fails natively")
    return r


def fault_scenarios(versions=("2.0", "2.1", "2.2"), tier="quick", prop=None):
    """The property's own quantifier, bounded: up to four buffered commands over two nodes, every subset (size <= 2) of failing
    write attempts, three wakes of node 1 and one of node 2; real gateway vs the reference model."""
    import itertools
    from . import refmodel as rm
    cmds = [(1, 0, 2, "a"), (1, 1, 2, "b"), (2, 0, 2, "c"), (1, 0, 3, "d")]
    n = 0
    for v in versions:
        wake = (lambda nid: f"{nid};255;3;0;32;") if v == "2.2" else (lambda nid: f"{nid};255;3;0;22;7")
        for k in range(1, 5):
            chosen = cmds[:k]
            total_attempts = k + 1
            fail_sets = [()] + [(i,) for i in range(total_attempts)] + ([(i, j) for i in range(total_attempts) for j in range(i + 1, total_attempts + 1)] if tier != "quick" or k <= 3 else [])
            for fs in fail_sets:
                state = {"nodes": {1: {"sleeping": True, "children": {0: {}, 1: {}}}, 2: {"sleeping": True, "children": {0: {}}}}}
                steps = [("send", nn, c, 1, 0, t, p, True) for nn, c, t, p in chosen]
                steps += [("recv", wake(1)), ("recv", wake(1)), ("recv", wake(2)), ("recv", wake(1))]
                from pyvc import native
                gw, tr = native.make_gateway(v, ())
                ref = rm.Ref(v, True)
                rm.install_state(gw, ref, state)
                tr.fail_writes = set(fs)
                ref.fail_set = set(fs)
                diffs = rm.drive(gw, tr, ref, steps)
                if prop is not None:
                    diffs = [d for d in diffs if prop in d[0]]
                n += 1
                if diffs:
                    return {"version": v, "buffered": chosen, "failing_write_attempts": list(fs), "wakes": "1,1,2,1", "observed": diffs[0][1]}, n
    return None, n


def bounded(world, tier, seed, rep):
    f, n = fault_scenarios(tier=tier)
    r = hn.bounded(PROP, tier, seed, rep)
    r["evaluations"] += n
    r["scope"] += "; plus every subset (size <= 2) of failing write attempts over 1-4 buffered commands for two nodes and four wakes, versions 2.0-2.2"
    r["native_failure"] = r.get("native_failure") or f
    return r


def bounded_search(world, unit_name):
    from pyvc import native
    v = native.unit_version(unit_name)
    f, n = fault_scenarios(versions=[v] if v in ("2.0", "2.1", "2.2") else ("2.0", "2.1", "2.2"), tier="thorough")
    if f:
        return [dict(f, clause=f"{PROP}/native-fault-enumeration")]
    found = hn.search(PROP, [v] if v else hn.VERS, seed=0, budget=600)
    return [dict(found, clause=f"{PROP}/native-differential")] if found else []


def rebuild_inlined(world, failing_helpers):
    """Re-prove with the bodies of the functions whose helper clauses failed inlined into their callers."""
    bad = {h["unit"].split("[")[0] for h in failing_helpers}
    units = build(world)
    for u in units:
        u.no_contract_for = tuple(set(u.no_contract_for) | bad)
    return units
