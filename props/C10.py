"""C10 - proved on the incoming-handler chain (see contracts/handlers_c.py and DESIGN.md section 8)."""
from . import gateway_units as gu
from . import handlers_common as hc
from . import handlers_native as hn

PROP = "C10"
MIN_OBLIGATIONS = 50
TRUSTED = hc.HANDLER_TRUSTED
ASSUMPTIONS = hc.HANDLER_ASSUMPTIONS
EXPLANATION = ("Every function between the leaf handlers and the dispatch is symbolically executed from the parsed source, once per "
               "protocol version, against a contract derived from the leaf effect specifications (written from the property text) "
               "through the same decorators and dispatch the code uses; callees are replaced by their derived contracts.")


def build(world):
    # the wrapper asks through Gateway.send and is verified against send's contract ("a send that raises wrote nothing and left the
    # buffers as they were"): that contract is proved here too, on Gateway.send and the outgoing handlers, so that a change on the
    # sending side (seed C10h: an outgoing handler that records the request before it writes) fails a helper clause in this check
    # and the wrapper is re-proved with the sending side inlined
    units = hc.build_for(world, PROP)
    have = {u.name for u in units}
    return units + [u for u in gu.send_units(world) if u.name not in have]


def replay(world, ob):
    return hn.replay(PROP, world, ob)


def bounded(world, tier, seed, rep):
    return hn.bounded(PROP, tier, seed, rep)


def bounded_search(world, unit_name):
    from pyvc import native
    v = native.unit_version(unit_name)
    found = hn.search(PROP, [v] if v else hn.VERS, seed=0, budget=600)
    return [dict(found, clause=f"{PROP}/native-differential")] if found else []


def rebuild_inlined(world, failing_helpers):
    """Re-prove with the bodies of the functions whose helper clauses failed inlined into their callers."""
    bad = {h["unit"].split("[")[0] for h in failing_helpers}
    units = build(world)
    for u in units:
        u.no_contract_for = tuple(set(u.no_contract_for) | bad)
    return units
