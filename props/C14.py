"""C14 - loading a persistence file fails only with the persistence read error."""
import json
import os
import tempfile

from pyvc import native
from contracts import persistence_c
from . import gateway_units as gu
from .common import BASE_TRUSTED

PROP = "C14"
ASSUMPTION_CHECKS = ['A-MM', 'A-JSON']
MIN_OBLIGATIONS = 10
TRUSTED = BASE_TRUSTED + [
    "A-FS: aiofiles.open raises FileNotFoundError/OSError or yields a handle; read() returns the content or raises OSError/UnicodeDecodeError",
    "A-JSON: json.loads returns an arbitrary JSON value (explored by kind; objects are dicts with arbitrary content) or raises JSONDecodeError; "
    "Python semantics of `in`, [], .pop, .values on the seven JSON kinds",
    "A-MM: Schema.load runs pre_load, rejects non-mappings, deserialises declared fields collecting ValidationErrors, lets other exceptions "
    "propagate, rejects unknown keys, runs post_load (pyvc/mmalgo.py, pyvc/mmjson.py); nested dict elements are represented by one arbitrary element",
]
ASSUMPTIONS = ["A-JSON tree shape: json.loads builds a tree, so the per-node records rewritten in place by the compatibility hooks are distinct "
               "from the top-level object being iterated (stated as an assumption on the load loop, not proved)",
               "'every prefix of a valid file' is covered because a proper prefix either fails to parse or parses to a shorter JSON value, both inside the quantifier",
               "a missing file whose creation fails may raise the persistence *write* error (the quantifier is over file contents)"]
EXPLANATION = ("Persistence.load is executed over an arbitrary file state and an arbitrary parsed JSON value with the real NodeSchema / "
               "ChildSchema hooks and constructors; every exception path must end in PersistenceReadError.")


def build(world):
    gu.prepare(world)
    return gu.mk(persistence_c.units(world))


CONTENTS = ["", "{}", "[]", "null", "5", "\"x\"", "{\"1\": 5}", "{\"1\": {}}", "{\"1\": null}", "{\"1\": []}", "{\"1\": \"abc\"}", "{\"1\": true}",
            "{\"1\": {\"node_id\": 1, \"node_type\": 17, \"protocol_version\": \"2.2\", \"children\": {\"x\": {}}}}",
            "{\"1\": {\"node_id\": 1, \"node_type\": 17, \"protocol_version\": \"2.2\", \"children\": {\"1\": 5}}}",
            "{\"1\": {\"node_id\": 1, \"node_type\": 17, \"protocol_version\": \"2.2\", \"children\": []}}",
            "{\"1\": {\"node_id\": 300, \"node_type\": 17, \"protocol_version\": \"2.2\"}}",
            "{\"1\": {\"node_id\": 1, \"node_type\": 17, \"protocol_version\": \"2.2\", \"battery_level\": 150}}",
            "{\"1\": {\"node_id\": 1, \"node_type\": 17, \"protocol_version\": \"2.2\", \"bogus\": 1}}",
            "{\"1\": {\"sensor_id\": 1, \"type\": null, \"protocol_version\": \"2.2\", \"children\": {\"1\": {\"id\": 1, \"type\": 6, \"values\": {\"0\": \"1\"}}}}}",
            "{\"1\": {\"node_id\": 1, \"node_type\": 17, \"protocol_version\": \"2.2\"", "{\"1\": {\"node_id\": 1.5, \"node_type\": [], \"protocol_version\": 3}}"]


def native_search():
    native.import_repo()
    from aiomysensors.exceptions import PersistenceReadError
    from aiomysensors.persistence import Persistence
    n = 0
    d = tempfile.mkdtemp(prefix="c14_")
    try:
        blobs = [c.encode() for c in CONTENTS] + [b"\xff\xfe{}", b"{\"1\": \"\xc3\"}"]
        # every single-field type/shape mutation of a valid record (the property's own quantifier, bounded)
        node = {"node_id": 1, "node_type": 17, "protocol_version": "2.2", "sketch_name": "s", "sketch_version": "1", "battery_level": 5, "heartbeat": 3,
                "sleeping": False, "children": {"3": {"child_id": 3, "child_type": 6, "description": "d", "values": {"0": "20"}}}}
        weird = ["null", "true", "5", "-7", "1.5", "NaN", "Infinity", "1e999", "\"x\"", "\"\"", "\"n/a\"", "\"12\"", "[]", "[1]", "{}", "{\"a\": 1}"]
        for fld in list(node) + ["children.3.child_id", "children.3.child_type", "children.3.description", "children.3.values", "children.3"]:
            for wv in weird:
                rec = json.loads(json.dumps(node))
                tgt, key = rec, fld
                if fld.startswith("children.3"):
                    parts = fld.split(".")
                    tgt = rec["children"] if len(parts) == 2 else rec["children"]["3"]
                    key = "3" if len(parts) == 2 else parts[2]
                tgt[key] = "@@"
                blobs.append(json.dumps({"1": rec}).replace("\"@@\"", wv).encode())
        # keys of the objects (top level, children, values): digits int() rejects, signs, padding, floats, empty - a valid record under each
        for key in ["\u00b2", "\u2460", "\u0661", " 1", "1 ", "+1", "-1", "1.0", "1e0", "", "gateway", "0x1", "1_0", "\u0967\u0968"]:
            blobs.append(json.dumps({key: node}).encode())
            rec = json.loads(json.dumps(node))
            rec["children"] = {key: rec["children"]["3"]}
            blobs.append(json.dumps({"1": rec}).encode())
            rec = json.loads(json.dumps(node))
            rec["children"]["3"]["values"] = {key: "20"}
            blobs.append(json.dumps({"1": rec}).encode())
        valid = CONTENTS[-3].encode()
        blobs += [valid[:i] for i in range(0, len(valid), 7)]
        for b in blobs:
            p = os.path.join(d, "f.json")
            with open(p, "wb") as f:
                f.write(b)
            n += 1
            try:
                native.run(Persistence({}, p).load())
            except PersistenceReadError:
                pass
            except Exception as e:  # noqa: BLE001
                return {"file_content": repr(b[:80]), "observed": f"{type(e).__name__}: {e}"}, n
        p2 = os.path.join(d, "missing.json")
        native.run(Persistence({}, p2).load())
        n += 1
        if not os.path.exists(p2):
            return {"file": "missing", "observed": "not created"}, n
    finally:
        import shutil
        shutil.rmtree(d, ignore_errors=True)
    return None, n


def replay(world, ob):
    f, n = native_search()
    return dict(f, confirmed=True, native_runs=n) if f else {"confirmed": False, "native_runs": n}


def bounded(world, tier, seed, rep):
    f, n = native_search()
    return {"label": "bounded", "scope": "21 file contents (wrong shapes, wrong types, unknown/missing fields, out-of-range, legacy layout), undecodable bytes, "
            "every 7th prefix of a valid file, a missing file; real files in a temp dir", "evaluations": n, "native_failure": f}


def bounded_search(world, unit_name):
    f, n = native_search()
    return [dict(f, clause="C14/native-files")] if f else []


def rebuild_inlined(world, failing_helpers):
    bad = {h["unit"].split("[")[0] for h in failing_helpers}
    units = build(world)
    for u in units:
        u.no_contract_for = tuple(set(u.no_contract_for) | bad)
    return units
