"""C09 - no set command is lost when send races with the wake-up flush."""
from pyvc.runner import Unit
from contracts import c09_c
from . import handlers_common as hc, gateway_units as gu

PROP = "C09"
ASSUMPTION_CHECKS = ['A-AIO']
MIN_OBLIGATIONS = 10
TRUSTED = hc.HANDLER_TRUSTED + ["A-AIO: asyncio is cooperative - another task runs only while this one is suspended in an await"]
ASSUMPTIONS = [
    "one listener task; other tasks only call Gateway.send (rely: buffer entries are added or overwritten, never removed; counters only grow)",
    "the guarantee side of the rely is Gateway.send's contract (C12: only the message's own key changes, by a store) plus the structural "
    "obligation that the park branch of the outgoing set handler contains no await",
    "quiescence (last value sent = last value written after one more wake) follows from: no buffered message disappears unwritten (this check) "
    "+ a later wake releases what is buffered (C07) + a parked message replaces only an older one for the same key (C12)",
]
EXPLANATION = ("The flush loop is re-verified with every await treated as an interference point: shared state is havocked under the rely "
               "relation before the callee's postcondition is assumed; each iteration must not remove an entry whose message it did not write.")


def build(world):
    gu.prepare(world)
    units = []
    for v in ("protocol_20", "protocol_21", "protocol_22"):
        cls = world.modules[c09_c.PROTO + v].ns["IncomingMessageHandler"]

        def setup(I):
            I.await_hook = c09_c.interference
            I.loop_override = {(c09_c.FLUSH_Q, 0): c09_c.loop_contract()}
        units.append(Unit(f"{c09_c.FLUSH_Q}[{v[-2:]}][interfering]", c09_c.FLUSH_Q, c09_c.flush_contract(), receiver=cls, setup=setup))
    # guarantee side of the rely: what an application send may do to the shared buffer (outgoing set handler and Gateway.send)
    units += [u for u in gu.send_units(world) if "handle_set" in u.name or "Gateway.send[" in u.name]
    return units


def extra_checks(world):
    return [c09_c.park_is_atomic(world)]


def native_race(version="2.2"):
    """Replay: a listener flushing node 1's buffer while an application task sends a newer value for the same key."""
    import asyncio
    from pyvc import native
    native.import_repo()
    from aiomysensors.model.message import Message
    from aiomysensors.model.node import Node

    async def scenario():
        gw, tr = native.make_gateway(version, ())
        gate = asyncio.Event()
        entered = asyncio.Event()
        orig = tr.write

        async def slow_write(line):
            entered.set()
            await gate.wait()
            await orig(line)
        tr.write = slow_write
        node = Node(1, 17, version, sleeping=True)
        node.add_child(1, 0)
        gw.nodes[1] = node
        await gw.send(Message(1, 1, 1, 0, 2, "old"))
        wake = "1;255;3;0;32;\n" if version == "2.2" else "1;255;3;0;22;5\n"
        tr.reads.append(wake)
        listener = asyncio.create_task(gw.listen().__anext__())
        await entered.wait()
        await gw.send(Message(1, 1, 1, 0, 2, "new"))  # parked while the flush is suspended in its write
        gate.set()
        await listener
        tr.reads.append(wake)
        await gw.listen().__anext__()
        return tr.writes
    writes = native.run(scenario())
    sets = [w for w in writes if w.startswith("1;1;1;0;2;")]
    ok = bool(sets) and sets[-1] == "1;1;1;0;2;new\n"
    return ok, writes


def replay(world, ob):
    from pyvc import native
    v = native.unit_version(ob["unit"].replace("[interfering]", "")) or "2.2"
    ok, writes = native_race(v)
    return {"confirmed": not ok, "schedule": "listener suspended in the first flush write; application send('new') for the same key; resume; second wake",
            "writes": writes, "expected_last_set": "1;1;1;0;2;new"}


def bounded(world, tier, seed, rep):
    bad = None
    for v in ("2.0", "2.1", "2.2"):
        ok, writes = native_race(v)
        if not ok and bad is None:
            bad = {"version": v, "writes": writes}
    return {"label": "bounded", "scope": "one schedule per 2.x version: send for a buffered key during the suspended flush write, then a second wake",
            "evaluations": 3, "native_failure": bad}


def bounded_search(world, unit_name):
    r = bounded(world, "quick", 0, None)
    return [dict(r["native_failure"], clause="C09/native-race")] if r["native_failure"] else []


def rebuild_inlined(world, failing_helpers):
    """Stale helper clauses: re-prove with the bodies of the functions whose helper clauses failed inlined into their callers."""
    bad = {h["unit"].split("[")[0] for h in failing_helpers}
    units = build(world)
    for u in units:
        u.no_contract_for = tuple(set(u.no_contract_for) | bad)
    return units
