"""C09 - no set command is lost when send races with the wake-up flush."""
from pyvc.runner import Unit
from contracts import c09_c
from . import handlers_common as hc, gateway_units as gu

PROP = "C09"
ASSUMPTION_CHECKS = ['A-AIO']
MIN_OBLIGATIONS = 10
TRUSTED = hc.HANDLER_TRUSTED + ["A-AIO: asyncio is cooperative - another task runs only while this one is suspended in an await"]
ASSUMPTIONS = [
    "one listener task; other tasks only call Gateway.send (rely: buffer entries are added or overwritten, never removed; counters only grow)",
    "the guarantee side of the rely is Gateway.send's contract (C12: only the message's own key changes, by a store) plus the structural "
    "obligation that the park branch of the outgoing set handler contains no await",
    "quiescence (last value sent = last value written after one more wake) follows from: no buffered message disappears unwritten (this check) "
    "+ a later wake releases what is buffered (C07) + a parked message replaces only an older one for the same key (C12)",
]
EXPLANATION = ("The flush loop is re-verified with every await treated as an interference point: shared state is havocked under the rely "
               "relation before the callee's postcondition is assumed; each iteration must not remove an entry whose message it did not write.")



def owns(ob_):
    # what a private helper returns is observable only through its callers, whose own clause of the same name is a property clause;
    # on the helper it is a helper clause (a caller that returns the message itself does not need it: benign/two_1_2)
    return not (ob_["name"] == "C09/returns-the-message" and "._handle_sleep_buffer" in ob_.get("unit", ""))

def build(world):
    gu.prepare(world)
    units = []
    for v in ("protocol_20", "protocol_21", "protocol_22"):
        cls = world.modules[c09_c.PROTO + v].ns["IncomingMessageHandler"]

        def setup(I):
            I.await_hook = c09_c.interference
            I.loop_override = {(c09_c.FLUSH_Q, 0): c09_c.loop_contract()}
        units.append(Unit(f"{c09_c.FLUSH_Q}[{v[-2:]}][interfering]", c09_c.FLUSH_Q, c09_c.flush_contract(), receiver=cls, setup=setup))
    # the callers of the release establish its precondition "the destination is flagged sleeping" (so that a racing send parks)
    import ast
    for name, q, ct, cls, case in hc.all_units(world):
        f = world.functions.get(q)
        if f is not None and q != c09_c.FLUSH_Q and any(isinstance(x, ast.Attribute) and x.attr == "_handle_sleep_buffer" for x in ast.walk(f.node)):
            units.append(Unit(name, q, ct, receiver=cls, case=case))
    # guarantee side of the rely: what an application send may do to the shared buffer (outgoing set handler and Gateway.send)
    for u in gu.send_units(world):
        if "handle_set" in u.name or "Gateway.send[" in u.name:
            if "handle_set" in u.name:
                u.contract.exit_hook = c09_c.park_hook  # C09/park-is-atomic, from the path itself
            units.append(u)
    return units


def native_race(version="2.2", race_child=(1, 2), at_write=0, children=((1, 2),)):
    """One schedule: commands buffered for the (child, value type) keys `children` of sleeping node 1; the listener releases them at a wake and is held
    inside its write number `at_write`; meanwhile an application task sends a newer value for `race_child`; then one more wake.
    Checks the property's clauses on the write log: per key the last line written is the last value sent, every line
    written was sent, and no value is written more often than it was sent.  Returns (ok, description)."""
    import asyncio
    from pyvc import native
    native.import_repo()
    from aiomysensors.model.message import Message
    from aiomysensors.model.node import Node

    async def scenario():
        gw, tr = native.make_gateway(version, ())
        gate = asyncio.Event()
        entered = asyncio.Event()
        orig = tr.write
        count = [0]

        async def slow_write(line):
            i = count[0]
            count[0] += 1
            if i == at_write and not gate.is_set():  # only the release's own write is held; a racing direct write passes
                entered.set()
                await gate.wait()
            await orig(line)
        node = Node(1, 17, version, sleeping=True)
        for ch, _t in set(children) | {race_child}:
            if ch not in node.children:
                node.add_child(ch, 0)
        gw.nodes[1] = node
        sent = {}
        for ch, t in children:
            await gw.send(Message(1, ch, 1, 0, t, f"old{ch}.{t}"))
            sent.setdefault((ch, t), []).append(f"old{ch}.{t}")
        tr.write = slow_write
        wake = "1;255;3;0;32;\n" if version == "2.2" else "1;255;3;0;22;5\n"
        tr.reads.append(wake)
        listener = asyncio.create_task(gw.listen().__anext__())
        try:
            await asyncio.wait_for(entered.wait(), 2)
        except asyncio.TimeoutError:
            gate.set()
            await asyncio.wait_for(listener, 20)
            return None, None  # the release made fewer writes than at_write: no such schedule
        await asyncio.wait_for(gw.send(Message(1, race_child[0], 1, 0, race_child[1], "new")), 20)
        sent.setdefault(race_child, []).append("new")
        gate.set()
        await asyncio.wait_for(listener, 20)
        tr.reads.append(wake)
        await asyncio.wait_for(gw.listen().__anext__(), 20)
        return tr.writes, sent
    try:
        writes, sent = native.run(scenario())
    except Exception as e:  # noqa: BLE001
        return False, {"error": f"{type(e).__name__}: {e}"}
    if writes is None:
        return True, None
    problems = []
    for (ch, t), vals in sent.items():
        lines = [w for w in writes if w.startswith(f"1;{ch};1;0;{t};")]
        got = [w[len(f"1;{ch};1;0;{t};"):].rstrip("\n") for w in lines]
        if not got or got[-1] != vals[-1]:
            problems.append(f"child {ch} type {t}: last sent {vals[-1]!r}, written {got}")
        for g in set(got):
            if g not in vals:
                problems.append(f"child {ch} type {t}: {g!r} written but never sent")
            elif got.count(g) > vals.count(g):
                problems.append(f"child {ch} type {t}: {g!r} written {got.count(g)} times, sent {vals.count(g)} times")
    return (not problems), {"version": version, "buffered_keys(child,type)": list(children), "racing_send_to(child,type)": race_child,
                           "held_in_release_write": at_write, "writes": writes, "problems": problems}


def _k(x):
    return x if isinstance(x, tuple) else (x, 2)


# (buffered keys, key of the racing send, release write in which the listener is held); a key is a child (value type 2) or (child, type)
SCHEDULES = [((1,), 1, 0), ((0, 1), 0, 0), ((0, 1), 1, 0), ((0, 1), 0, 1), ((0, 1), 1, 1), ((0, 1), 2, 0), ((0, 1), 2, 1),
             ((0, 1, 2), 2, 0), ((0, 1, 2), 0, 2), ((0, 1, 2), 1, 1),
             # keys that share node and child and differ in the value type only
             (((0, 2), (0, 3)), (0, 3), 0), (((0, 2), (0, 3)), (0, 2), 1), (((0, 2),), (0, 3), 0), (((0, 2), (0, 3), (1, 2)), (0, 3), 1)]


def native_sweep(versions=("2.0", "2.1", "2.2")):
    n = 0
    for v in versions:
        for children, race, at in SCHEDULES:
            ok, info = native_race(v, _k(race), at, tuple(_k(c) for c in children))
            n += 1
            if not ok:
                return info, n
    return None, n


def replay(world, ob):
    from pyvc import native
    v = native.unit_version(ob["unit"].replace("[interfering]", "")) or "2.2"
    bad, n = native_sweep((v,))
    if bad is None:
        bad, n = native_sweep()
    return dict(bad, confirmed=True, native_runs=n) if bad else {"confirmed": False, "native_runs": n}


def bounded(world, tier, seed, rep):
    bad, n = native_sweep()
    return {"label": "bounded", "scope": f"{len(SCHEDULES)} schedules per 2.x version: 1-3 buffered keys, the listener held in release write #0..2, "
                                         "one racing send for a written / pending / new key, then a second wake",
            "evaluations": n, "native_failure": bad}


def bounded_search(world, unit_name):
    r = bounded(world, "quick", 0, None)
    return [dict(r["native_failure"], clause="C09/native-race")] if r["native_failure"] else []


def rebuild_inlined(world, failing_helpers):
    """Stale helper clauses: re-prove with the bodies of the functions whose helper clauses failed inlined into their callers."""
    bad = {h["unit"].split("[")[0] for h in failing_helpers}
    units = build(world)
    for u in units:
        u.no_contract_for = tuple(set(u.no_contract_for) | bad)
    return units
