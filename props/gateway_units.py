"""Unit builders for the gateway-level and codec contracts."""
from pyvc.runner import Unit
from contracts import base_c, handlers_c, gateway_c, codec_c
from . import handlers_common as hc


def prepare(world):
    hc.all_units(world)  # registers base + handler contracts once
    if not getattr(world, "_gw_registered", False):
        gateway_c.register(world)
        world._gw_registered = True


def mk(tuples):
    out = []
    for t in tuples:
        name, q, ct, cls, case = t[:5]
        setup = t[5] if len(t) > 5 else None
        out.append(Unit(name, q, ct, receiver=cls, case=case, setup=setup))
    return out


def send_units(world):
    prepare(world)
    return mk(gateway_c.units(world))


def listen_units(world):
    prepare(world)
    return mk(gateway_c.listen_units(world))


def version_units(world):
    prepare(world)
    units = mk(gateway_c.version_units(world))
    rel = mk(gateway_c.release_units(world))
    for u in rel:
        u.no_contract_for = (gateway_c.GETP,)  # the real get_protocol body, not its contract
    return units + rel


def codec_units(world, which):
    prepare(world)
    return mk(codec_c.units(world, which))


def model_units(world):
    prepare(world)
    from contracts import model_c
    return mk(model_c.units(world))
