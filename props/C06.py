"""C06 - proved on the incoming-handler chain (see contracts/handlers_c.py and DESIGN.md section 8)."""
from . import handlers_common as hc
from . import handlers_native as hn

PROP = "C06"
MIN_OBLIGATIONS = 50
TRUSTED = hc.HANDLER_TRUSTED
ASSUMPTIONS = hc.HANDLER_ASSUMPTIONS
EXPLANATION = ("Every function between the leaf handlers and the dispatch is symbolically executed from the parsed source, once per "
               "protocol version, against a contract derived from the leaf effect specifications (written from the property text) "
               "through the same decorators and dispatch the code uses; callees are replaced by their derived contracts.")


# "followed by one version query (unless that message itself made the version known)": the wrapper's clauses are implications under
# the guards of the version handler's specified outcomes, and the outcome a version report may have while the version is unknown -
# it returns normally only if it made the version known - is the clause `outcome-as-specified/normal` of handle_i_version, which
# carries C04's id.  In this check it is a property clause (seed C06h: a report from another node returns normally, the version
# stays unknown and the wrapper, which exempts "the answer itself", asks nothing).
ALSO_PROPERTY = ("C04",)


def owns(ob_):
    if PROP in ob_["name"].split("/")[0].split("+"):
        return True
    return ob_["name"].startswith("C04/outcome-as-specified/normal") and "handle_i_version" in ob_.get("unit", "")


def build(world):
    # every reaction goes out through Gateway.send(..., message_buffer=False) and is verified against send's contract ("written at
    # once, never parked; a send that raises wrote nothing"): that contract is proved in this check too (as in C10's and C12's)
    from . import gateway_units as gu
    units = hc.build_for(world, PROP)
    have = {u.name for u in units}
    return units + [u for u in gu.send_units(world) if u.name not in have]


def extra_checks(world):
    return hc.dispatch_obligations(world, PROP)


def replay(world, ob):
    return hn.replay(PROP, world, ob)


def bounded(world, tier, seed, rep):
    return hn.bounded(PROP, tier, seed, rep)


def bounded_search(world, unit_name):
    from pyvc import native
    v = native.unit_version(unit_name)
    found = hn.search(PROP, [v] if v else hn.VERS, seed=0, budget=600)
    return [dict(found, clause=f"{PROP}/native-differential")] if found else []


def rebuild_inlined(world, failing_helpers):
    """Re-prove with the bodies of the functions whose helper clauses failed inlined into their callers."""
    bad = {h["unit"].split("[")[0] for h in failing_helpers}
    units = build(world)
    for u in units:
        u.no_contract_for = tuple(set(u.no_contract_for) | bad)
    return units
