"""C17 - serial/TCP transport delivers exactly the lines of the byte stream."""
import asyncio

from pyvc import native
from contracts import transport_c
from . import gateway_units as gu
from .common import BASE_TRUSTED

PROP = "C17"
MIN_OBLIGATIONS = 20
TRUSTED = BASE_TRUSTED + [
    "A-STREAM: StreamReader.readuntil(sep) returns the shortest prefix of the not-yet-consumed bytes ending in sep, independently of how "
    "the bytes arrived, else IncompleteReadError(partial) at EOF, LimitOverrunError, or OSError; StreamWriter.write appends in call order; "
    "drain/close/wait_closed/open_connection may raise OSError (SerialException is an OSError)",
    "bytes.decode() / str.encode() are total inverse UTF-8 codecs on valid input; decode raises UnicodeDecodeError otherwise",
]
ASSUMPTIONS = ["chunking independence is the assumed contract of readuntil, validated (bounded) by the native stand-in over every chunking of short streams",
               "'one line per read, in order' is the induction over the read postcondition (inb' = inb minus its first line)"]
EXPLANATION = ("StreamTransport.read/write/connect/disconnect are executed for both concrete transports, connected and never connected, "
               "against contracts over ghost byte streams; every exception path must end in a TransportError.")


def build(world):
    gu.prepare(world)
    return gu.mk(transport_c.units(world))


STREAMS = [b"1;2;3;0;0;x\n", b"a\nb\n", b"\n\n", b"\xff\xfe\n", b"abc", b"", b"ok\n\xc3", b"\xc3\xa9;1\nz\n", b"x" * 70000 + b"\n",
           b"x" * 70000 + b"\n1;1;1;0;0;20.5\n", b"\xff\n1;1;1;0;0;20.5\n",
           # characters a lenient or "smart" codec treats specially: byte order mark, NUL, other line separators, surrogate-range bytes
           b"\xef\xbb\xbf\n", b"\xef\xbb\xbf1;1;1;0;0;1\n\xef\xbb\xbfx\n", b"a\x00b\n", b"a\rb\r\n", b"\xe2\x80\xa8x\n", b"\xed\xa0\x80\n", b"\xc0\xaf\n"]


def feed_and_read(data, chunks):
    native.import_repo()
    from aiomysensors.exceptions import TransportError
    from aiomysensors.transport import StreamTransport

    class Fake(StreamTransport):
        async def _open_connection(self):
            return self._r, self._w

    async def run():
        t = Fake()
        r = asyncio.StreamReader()
        t._r, t._w = r, None
        t.reader = r
        pos = 0
        for n in chunks:
            r.feed_data(data[pos:pos + n])
            pos += n
        r.feed_data(data[pos:])
        r.feed_eof()
        got = []
        after_error = 0
        while after_error < 3:
            try:
                got.append(("line", await t.read()))
            except TransportError as e:
                got.append(("transport-error", type(e).__name__))
                after_error += 1  # keep reading: what follows an error must still be an error or a real line of the stream
            except Exception as e:  # noqa: BLE001
                got.append(("OTHER", type(e).__name__))
                break
        return got
    return asyncio.run(run())


def expected(data):
    out, rest = [], data
    while b"\n" in rest:
        line, rest = rest.split(b"\n", 1)
        if len(line) + 1 > 2 ** 16:
            out.append(("transport-error", None))
            return out
        try:
            out.append(("line", (line + b"\n").decode()))
        except UnicodeDecodeError:
            out.append(("transport-error", None))
            return out
    out.append(("transport-error", None))  # EOF (possibly mid-line)
    return out


def native_search(tier="quick"):
    n = 0
    for data in STREAMS:
        chunkings = [[], [1], [2, 1], [len(data) // 2]] if len(data) > 12 else [[a, b] for a in range(0, len(data) + 1) for b in range(0, len(data) - a + 1)]
        for ch in chunkings:
            got = feed_and_read(data, ch)
            n += 1
            exp = expected(data)
            norm = [(k, v if k == "line" else None) for k, v in got]
            first_err = next((i for i, (k, _) in enumerate(norm) if k != "line"), len(norm))
            bad = any(k == "OTHER" for k, _ in got) or norm[:first_err + 1] != exp
            # after the first error: only further errors, or lines of the stream that come later, in order (a resync is allowed)
            real = [l + b"\n" for l in data.split(b"\n")[:-1]]
            idx = first_err  # number of lines consumed so far (the failed one is skipped below if it was a complete line)
            for k, v in norm[first_err + 1:]:
                if k == "line":
                    later = [j for j in range(idx, len(real)) if real[j].decode("utf-8", "replace") == v]
                    if not later:
                        bad = True
                        break
                    idx = later[0] + 1
            if bad:
                return {"stream": repr(data[:40]) + (f"...({len(data)} bytes)" if len(data) > 40 else ""), "chunks": ch,
                        "observed": [(k, (v[:30] + "...") if isinstance(v, str) and len(v) > 30 else v) for k, v in got[:5]], "expected": exp[:4]}, n
    return None, n


FAULTS = [ConnectionResetError("reset by peer"), BrokenPipeError("broken pipe"), OSError("device gone"), TimeoutError("timed out")]
LINES = ["1;1;1;0;0;20.5\n", "255;255;3;0;4;7\n", "1;1;1;0;47;é ü\n", "\n"]


def native_faults():
    """'all fault positions (connect, read, write, close)': a real StreamTransport over a scripted reader / writer whose calls raise
    an OS-level error at one chosen position.  Every such error must come out as a transport error (be absorbed by disconnect),
    every write that succeeds must have put exactly the UTF-8 bytes of its line on the stream, in call order."""
    native.import_repo()
    from aiomysensors.exceptions import TransportError
    from aiomysensors.transport import StreamTransport
    n = 0

    def outcome(coro):
        try:
            return ("ok", asyncio.run(coro))
        except TransportError as e:
            return ("transport-error", type(e).__name__)
        except Exception as e:  # noqa: BLE001
            return ("OTHER", type(e).__name__)

    for fault in FAULTS:
        for position in ("open", "writer.write", "writer.drain", "writer.close", "writer.wait_closed", "reader.readuntil", None):
            sink = []

            def fail(where, position=position, fault=fault):
                if where == position:
                    raise fault

            class Writer:
                def write(self, data):
                    fail("writer.write")
                    sink.append(bytes(data))

                async def drain(self):
                    fail("writer.drain")

                def close(self):
                    fail("writer.close")

                async def wait_closed(self):
                    fail("writer.wait_closed")

            class Reader:
                async def readuntil(self, sep=b"\n"):
                    fail("reader.readuntil")
                    return b"1;1;1;0;0;20.5\n"

            class Fake(StreamTransport):
                async def _open_connection(self):
                    fail("open")
                    return Reader(), Writer()

            t = Fake()
            script = [("write-before-connect", lambda: t.write(LINES[0])), ("read-before-connect", lambda: t.read()), ("connect", lambda: t.connect())]
            script += [(f"write[{i}]", (lambda line=line: t.write(line))) for i, line in enumerate(LINES)]
            script += [("read", lambda: t.read()), ("disconnect", lambda: t.disconnect())]
            accepted = []
            for step, call in script:
                if position == "open" and step not in ("write-before-connect", "read-before-connect", "connect", "disconnect"):
                    continue
                kind, val = outcome(call())
                n += 1
                faulty = (position is not None and {"connect": "open", "read": "reader.readuntil"}.get(step) == position) or (step.startswith("write[") and position in ("writer.write", "writer.drain"))
                want = "transport-error" if step.endswith("before-connect") or faulty else "ok"
                if kind != want:
                    return {"fault": f"{type(fault).__name__} raised by {position}", "step": step, "observed": f"{kind}: {val}", "expected": want}, n
                if step.startswith("write[") and kind == "ok":
                    accepted.append(LINES[int(step[6:-1])].encode())
            if position != "writer.drain" and sink != accepted:
                return {"fault": f"{type(fault).__name__} raised by {position}", "observed": f"bytes on the stream {sink}", "expected": f"{accepted}"}, n
    return None, n


def replay(world, ob):
    f, n = native_faults() if any(w in ob.get("unit", "") for w in (".write", ".connect", ".disconnect")) else (None, 0)
    if f:
        return dict(f, confirmed=True, native_runs=n)
    f, n2 = native_search()
    if not f:
        f, n = native_faults()
    return dict(f, confirmed=True, native_runs=n + n2) if f else {"confirmed": False, "native_runs": n + n2}


def bounded(world, tier, seed, rep):
    f, n = native_search(tier)
    f2, n2 = native_faults()
    return {"label": "bounded", "scope": "9 byte streams (valid/invalid UTF-8, with/without final newline, over-long) x every 2-cut chunking of the short ones, through a real asyncio.StreamReader; "
            "4 OS-level errors x 6 fault positions (open, write, drain, close, wait_closed, readuntil) over a scripted connect / 4 writes / read / disconnect",
            "evaluations": n + n2, "native_failure": f or f2}


def bounded_search(world, unit_name):
    f, n = native_search()
    if f:
        return [dict(f, clause="C17/native-stream")]
    f, n = native_faults()
    return [dict(f, clause="C17/native-faults")] if f else []


def rebuild_inlined(world, failing_helpers):
    """Stale helper clauses: re-prove with the bodies of the functions whose helper clauses failed inlined into their callers."""
    bad = {h["unit"].split("[")[0] for h in failing_helpers}
    units = build(world)
    for u in units:
        u.no_contract_for = tuple(set(u.no_contract_for) | bad)
    return units
