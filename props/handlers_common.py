"""Shared machinery of the properties that are proved on the incoming-handler chain (C03-C08, C10, C19)."""
from pyvc.runner import Unit
from contracts import base_c, handlers_c
from .common import BASE_TRUSTED

HANDLER_TRUSTED = BASE_TRUSTED + [
    "A-NUM: float()/round()/int() of a payload: total on literals, ValueError otherwise, nan/inf as documented",
    "A-AV: AwesomeVersion(s).valid / .section(i) are total functions of s (awesomeversion 24.6)",
    "A-CLOCK: calendar.timegm(time.localtime()) is an abstract function of the clock tick",
    "A-STR: str(int) is the canonical decimal",
]
HANDLER_ASSUMPTIONS = [
    "heap invariant WF (contracts/types.py elem_inv) holds on entry of every handler and is re-proved on every exit",
    "wf_gateway on entry: the schema's protocol is the active protocol; a gateway without a known version runs 1.4 rules; "
    "the two buffer dicts are distinct objects (established by Gateway.__init__, preserved by the setter: C05/agreement)",
    "Gateway.send is used through its contract (base_c.py), discharged on the real Gateway.send by check C12",
    "_handle_message (3-line forwarder), property getters, Message/Node/Child/exception constructors are inlined: "
    "their bodies are their contracts",
]


def clause_ids(ct):
    ids = [c.id for c in ct.ensures]
    for cl in ct.raises.values():
        ids += [c.id for c in cl]
    return ids


def relevant(world, q, ct, prop):
    if getattr(ct, "unsupported_reason", None):
        return True  # a dispatcher without a derived contract: every handler-chain property has lost units, none may drop it silently
    ids = clause_ids(ct)
    lc = [l for (fq, _), l in world.loops.items() if fq == q]
    for l in lc:
        ids += [c.id for c in l.invariant]
    return any(prop in i.split("/")[0].split("+") for i in ids)


_CACHE = {}


def all_units(world):
    if "u" not in _CACHE:
        base_c.register(world)
        _CACHE["u"] = handlers_c.register(world)
    return _CACHE["u"]


def build_for(world, prop, every_unit=False):
    units = []
    for name, q, ct, cls, case in all_units(world):
        if every_unit or relevant(world, q, ct, prop):
            units.append(Unit(name, q, ct, receiver=cls, case=case))
    return units
