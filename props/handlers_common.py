"""Shared machinery of the properties that are proved on the incoming-handler chain (C03-C08, C10, C19)."""
from pyvc.runner import Unit
from contracts import base_c, handlers_c
from .common import BASE_TRUSTED

HANDLER_TRUSTED = BASE_TRUSTED + [
    "A-NUM: float()/round()/int() of a payload: total on literals, ValueError otherwise, nan/inf as documented",
    "A-AV: AwesomeVersion(s).valid / .section(i) are total functions of s (awesomeversion 24.6)",
    "A-CLOCK: calendar.timegm(time.localtime()) is an abstract function of the clock tick",
    "A-STR: str(int) is the canonical decimal",
]
HANDLER_ASSUMPTIONS = [
    "heap invariant WF (contracts/types.py elem_inv) holds on entry of every handler and is re-proved on every exit",
    "wf_gateway on entry: the schema's protocol is the active protocol; a gateway without a known version runs 1.4 rules; "
    "the two buffer dicts are distinct objects (established by Gateway.__init__, preserved by the setter: C05/agreement)",
    "Gateway.send is used through its contract (base_c.py), discharged on the real Gateway.send by check C12",
    "_handle_message (3-line forwarder), property getters, Message/Node/Child/exception constructors are inlined: "
    "their bodies are their contracts",
]


def clause_ids(ct):
    ids = [c.id for c in ct.ensures]
    for cl in ct.raises.values():
        ids += [c.id for c in cl]
    return ids


def relevant(world, q, ct, prop):
    if getattr(ct, "unsupported_reason", None):
        return True  # a dispatcher without a derived contract: every handler-chain property has lost units, none may drop it silently
    ids = clause_ids(ct)
    lc = [l for (fq, _), l in world.loops.items() if fq == q]
    for l in lc:
        ids += [c.id for c in l.invariant]
    return any(prop in i.split("/")[0].split("+") for i in ids)


_CACHE = {}


def all_units(world):
    if "u" not in _CACHE:
        base_c.register(world)
        _CACHE["u"] = handlers_c.register(world)
    return _CACHE["u"]


# What an internal type number means is a fact about the MySensors serial API (specification data, like the type ranges pinned in
# props/C05.py): 0 is a battery report, 1 a time request, ... The dispatch finds the handler through the *name* of the enum member
# with that value, and the leaf specifications are attached to the handler functions - so the table value -> member name is what
# connects "a battery report updates the node" to the number 0 on the wire.  It is pinned here; every other type number of a table
# has no handler (the message is yielded as it is).
INTERNAL_MEANING = {0: "i_battery_level", 1: "i_time", 2: "i_version", 3: "i_id_request", 6: "i_config", 11: "i_sketch_name", 12: "i_sketch_version"}
INTERNAL_MEANING_2X = {14: "i_gateway_ready", 21: "i_discover_response", 22: "i_heartbeat_response"}
INTERNAL_MEANING_22 = {32: "i_pre_sleep_notification"}
VERSION_OF = {"protocol_14": "1.4", "protocol_15": "1.5", "protocol_20": "2.0", "protocol_21": "2.1", "protocol_22": "2.2"}


# which property speaks about which meaning: C04 what is recorded (or refused for an unknown node), C05 the version report,
# C06 what is answered, C07 what wakes a node
MEANING_OWNER = {
    "C04": {"i_battery_level", "i_sketch_name", "i_sketch_version", "i_heartbeat_response", "i_discover_response", "i_pre_sleep_notification", "i_id_request"},
    "C05": {"i_version"},
    "C06": {"i_time", "i_id_request", "i_config", "i_gateway_ready"},
    "C07": {"i_heartbeat_response", "i_pre_sleep_notification"},
}


def dispatch_obligations(world, prop):
    """One structural obligation per version: every internal type number resolves to the handler the serial API's meaning of that
    number names, and to none otherwise - restricted to the meanings `prop` speaks about (a number that should or does resolve
    to one of them)."""
    all_units(world)
    mine = {"handle_" + m for m in MEANING_OWNER[prop]}
    out = []
    for v in handlers_c.VMODS:
        D = handlers_c.Deriver(world, v)
        want = dict(INTERNAL_MEANING)
        if v >= "protocol_20":
            want.update(INTERNAL_MEANING_2X)
        if v >= "protocol_22":
            want.update(INTERNAL_MEANING_22)
        wrong = {}
        for val, (hname, hs) in D.arm_specs("Internal").items():
            got = None if hs.name.endswith("(none)") else hname
            exp = "handle_" + want[int(val)] if int(val) in want else None
            if got != exp:
                wrong[int(val)] = {"resolves_to": got, "documented": exp}
        for val in want:
            if val not in {int(x) for x in D.table("Internal")}:
                wrong[val] = {"resolves_to": "no such type", "documented": "handle_" + want[val]}
        wrong = {val: d for val, d in wrong.items() if d["resolves_to"] in mine or d["documented"] in mine}
        out.append({"name": f"{prop}/type-number-means[{handlers_c.VTAG[v]}]/internal", "tag": "property", "status": "sat" if wrong else "unsat", "secs": 0.0,
                    "backend": "structural", "unit": f"{v}.Internal", "path": [f"{len(want)} documented reactions; differences: {wrong}"],
                    "model": {"version": VERSION_OF[v], "lines": [f"1;255;3;0;{val};55" for val in sorted(wrong)], "differences": wrong} if wrong else None})
    return out


def build_for(world, prop, every_unit=False):
    units = []
    for name, q, ct, cls, case in all_units(world):
        if every_unit or relevant(world, q, ct, prop):
            units.append(Unit(name, q, ct, receiver=cls, case=case))
    return units
