"""C05 - proved on the incoming-handler chain (see contracts/handlers_c.py and DESIGN.md section 8)."""
from . import handlers_common as hc
from . import handlers_native as hn

PROP = "C05"
ASSUMPTION_CHECKS = ['A-AV']
MIN_OBLIGATIONS = 50
TRUSTED = hc.HANDLER_TRUSTED
ASSUMPTIONS = hc.HANDLER_ASSUMPTIONS
EXPLANATION = ("Every function between the leaf handlers and the dispatch is symbolically executed from the parsed source, once per "
               "protocol version, against a contract derived from the leaf effect specifications (written from the property text) "
               "through the same decorators and dispatch the code uses; callees are replaced by their derived contracts.")


def build(world):
    from . import gateway_units as gu
    return hc.build_for(world, PROP) + gu.version_units(world) + gu.listen_units(world)


# "Internal and stream message types that do not exist in the active protocol are refused as unsupported; those that exist are
# accepted."  Which type numbers exist in a protocol version is a fact about the MySensors serial API, not about this code base:
# it is specification data.  The handler contracts take "exists" from the enum of the active protocol module (that is what the
# dispatch consults), so the enums themselves are pinned here - internal types 0..14 / 0..17 / 0..28 / 0..28 / 0..33 and stream
# types 0..5 - and every table must be exactly that range.
TYPE_COUNT = {"protocol_14": {"Internal": 15, "Stream": 6}, "protocol_15": {"Internal": 18, "Stream": 6}, "protocol_20": {"Internal": 29, "Stream": 6},
              "protocol_21": {"Internal": 29, "Stream": 6}, "protocol_22": {"Internal": 34, "Stream": 6}}
VOF = {"protocol_14": "1.4", "protocol_15": "1.5", "protocol_20": "2.0", "protocol_21": "2.1", "protocol_22": "2.2"}


def extra_checks(world):
    from contracts import handlers_c as hcx
    hc.all_units(world)
    out = []
    for v in hcx.VMODS:
        ns = world.modules[hcx.PROTO + v].ns
        for enum, n in TYPE_COUNT[v].items():
            from pyvc.core import unpoisoned
            have = sorted(int(x) for x in unpoisoned(ns[enum]).enum_canon)  # (Unsupported if the enum is defined outside the subset)
            want = list(range(n))
            diff = {"missing": sorted(set(want) - set(have)), "surplus": sorted(set(have) - set(want))}
            out.append({"name": f"C05/type-numbers-of-the-protocol[{hcx.VTAG[v]}]/{enum}", "tag": "property", "status": "unsat" if have == want else "sat",
                        "secs": 0.0, "backend": "structural", "unit": f"{v}.{enum}", "path": [f"documented 0..{n - 1}; {diff}"],
                        "model": {"version": VOF[v], "enum": enum, **diff}})
    return out + hc.dispatch_obligations(world, PROP)  # the number 2 is the version report


def type_sweep(versions=hn.VERS):
    """'all internal/stream type numbers per version', natively: one line per type number 0..40 (internal) / 0..9 (stream) from a known
    node under every version, real gateway against the reference model (whose tables are written down, not read from the code)."""
    from . import refmodel as rm
    n = 0
    state = {"nodes": {1: {"children": {1: {"type": 6}}}}}
    for ver in versions:
        for k, hi in ((3, 41), (4, 10)):
            for t in range(hi):
                if k == 3 and t in (3, 4):
                    continue  # id request / response: decided by C11's check
                line = rm.enc(1, 255, k, 0, t, "1")
                try:
                    diffs = rm.run_history(ver, [("recv", line)], state=state)
                except Exception as e:  # noqa: BLE001
                    return {"version": ver, "line": line, "observed": f"harness error {e!r}"}, n
                n += 1
                hit = [d for d in diffs if PROP in d[0]]
                if hit:
                    return {"version": ver, "pre_state": "node 1 known", "line": line, "observed": hit[0][1]}, n
    return None, n


def replay(world, ob):
    if ob.get("backend") == "structural" and not (ob.get("model") or {}).get("lines"):
        m = ob.get("model") or {}
        f, n = type_sweep([m["version"]] if m.get("version") else hn.VERS)
        return dict(f, confirmed=True, native_runs=n) if f else {"confirmed": False, "native_runs": n}
    return hn.replay(PROP, world, ob)


def bounded(world, tier, seed, rep):
    r = hn.bounded(PROP, tier, seed, rep)
    f, n = type_sweep()
    r["evaluations"] += n
    r["scope"] += "; plus every internal type number 0..40 and stream type number 0..9 from a known node under each of the 5 versions"
    r["native_failure"] = r.get("native_failure") or f
    return r


def bounded_search(world, unit_name):
    from pyvc import native
    v = native.unit_version(unit_name)
    f, n = type_sweep([v] if v else hn.VERS)
    if f:
        return [dict(f, clause=f"{PROP}/native-type-sweep")]
    found = hn.search(PROP, [v] if v else hn.VERS, seed=0, budget=600)
    return [dict(found, clause=f"{PROP}/native-differential")] if found else []


def rebuild_inlined(world, failing_helpers):
    """Re-prove with the bodies of the functions whose helper clauses failed inlined into their callers."""
    bad = {h["unit"].split("[")[0] for h in failing_helpers}
    units = build(world)
    for u in units:
        u.no_contract_for = tuple(set(u.no_contract_for) | bad)
    return units
