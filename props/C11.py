"""C11 — node ids handed out are fresh, in range, and never handed out twice."""
from pyvc.runner import Unit
from pyvc import native
from contracts import c11_c
from .common import VERSIONS, VTAG, incoming_cls, register_base, resolve, BASE_TRUSTED

PROP = "C11"
MIN_OBLIGATIONS = 100
TRUSTED = BASE_TRUSTED + ["A-STR: str(int) is the canonical decimal; max() over dict keys returns the greatest key"]
ASSUMPTIONS = [
    "Gateway.send is used through its contract (contracts/base_c.py), which is discharged in this check as well (Gateway.send and the outgoing handlers are units of it)",
    "registry keys lie in 0..255 (heap invariant WF, preserved by every function under contract)",
]
EXPLANATION = ("handle_i_id_request is symbolically executed from the parsed source once per protocol version against the "
               "contract in contracts/c11_c.py; the registry is an arbitrary finite map (symbolic domain), so every subset "
               "shape is covered; 'two requests never get the same id' is the lemma fresh+registered applied twice.")


def build(world):
    register_base(world)
    c11_c.register(world)
    units = []
    for v in VERSIONS:
        cls = incoming_cls(world, v)
        f = resolve(world, cls, "handle_i_id_request")
        units.append(Unit(f"{f.qualname}[{VTAG[v]}]", f.qualname, world.contracts[c11_c.Q], receiver=cls))
    # the id response goes out through Gateway.send and the handler is verified against send's contract: that contract is proved
    # in this check too (Gateway.send and the outgoing handlers), so a change on the sending side is a stale helper here
    from . import gateway_units as gu
    have = {u.name for u in units}
    return units + [u for u in gu.send_units(world) if u.name not in have]


def rebuild_inlined(world, failing_helpers):
    bad = {h["unit"].split("[")[0] for h in failing_helpers}
    units = build(world)
    for u in units:
        u.no_contract_for = tuple(set(u.no_contract_for) | bad)
    return units


def native_check(version, node_ids, node_id, child_id, fail_write):
    """Run the real handler on a real gateway and evaluate C11's clauses natively; returns failed clause ids."""
    native.import_repo()
    from aiomysensors.exceptions import TooManyNodesError, TransportError
    from aiomysensors.model.message import Message
    gw, tr = native.make_gateway(version, node_ids, fail_writes=[0] if fail_write else [])
    before = set(gw.nodes)
    cls = native.handler_class(version)
    msg = Message(node_id, child_id, 3, 0, 3, "")
    failed, outcome = [], "normal"
    try:
        res = native.run(cls.handle_i_id_request(gw, msg, gw._message_buffer))
    except TooManyNodesError:
        outcome = "TooManyNodesError"
        if set(gw.nodes) != before:
            failed.append("C11/fail-registry-unchanged")
        if tr.writes:
            failed.append("C11/fail-nothing-written")
        if not before or max(before) < 254:
            failed.append("C11/fail-only-when-full")
        return failed, outcome, tr.writes
    except TransportError:
        # "registered before the answer is written": the node may have seen the answer, the id stays taken
        new = set(gw.nodes) - before
        if len(new) != 1 or not 1 <= next(iter(new)) <= 254 or before - set(gw.nodes):
            failed.append("C11/write-failed-still-registered")
        return failed, "TransportError", tr.writes
    new = set(gw.nodes) - before
    if len(new) != 1:
        failed += ["C11/registered", "C11/fresh"]
        return failed, outcome, tr.writes
    (nid,) = new
    if not 1 <= nid <= 254:
        failed.append("C11/range")
    if res is not msg:
        failed.append("C11/result-is-message")
    if tr.writes != [f"{node_id};{child_id};3;0;4;{nid}\n"]:
        failed.append("C11/response-shape")
    if not tr.registry_at_write or nid not in tr.registry_at_write[0]:
        failed.append("C11/registered-before-write")
    return failed, outcome, tr.writes


def scope():
    """Bounded stand-in scope: every subset of {0,1,2,3,253,254,255} plus the dense registries."""
    import itertools
    base = [0, 1, 2, 3, 253, 254, 255]
    regs = [list(c) for r in range(len(base) + 1) for c in itertools.combinations(base, r)]
    regs += [list(range(0, 254)), list(range(1, 255)), list(range(0, 253)), [5], [100, 200]]
    # the registry is an insertion-ordered dict: the same key sets entered in descending and in mixed order
    regs += [list(reversed(r)) for r in regs if 2 <= len(r) <= 7] + [[5, 4], [5, 2], [254, 1], [3, 1, 2], [200, 100, 150]]
    return regs


def search(version, first=(), want=None, nid=255, cid=255):
    fails, n = [], 0
    for node_ids in list(first) + scope():
        for fail in (False, True):
            failed, outcome, writes = native_check(version, node_ids, nid, cid, fail)
            n += 1
            for cl in failed:
                if want is None or cl == want:
                    fails.append({"clause": cl, "version": version, "registry": node_ids if len(node_ids) < 20 else f"{len(node_ids)} ids from {node_ids[0]}",
                                  "request": f"{nid};{cid};3;0;3;", "fail_write": fail, "outcome": outcome, "writes": writes})
            if fails and want is not None:
                return fails, n
    return fails, n


def replay(world, ob):
    m = ob["model"] or {}
    version = native.unit_version(ob["unit"]) or "1.4"
    keys = [int(k) for k in native.dict_keys((m.get("gateway") or {}).get("nodes"))]
    msg = m.get("message") or {}
    nid, cid = msg.get("node_id", 255), msg.get("child_id", 255)
    if not (isinstance(nid, int) and isinstance(cid, int)):
        nid, cid = 255, 255
    # the model's registry first, then the bounded scope, looking for a native failure of the same clause
    fails, n = search(version, first=[keys], want=ob["name"], nid=nid, cid=cid)
    if fails:
        return {"confirmed": True, "input": fails[0], "native_runs": n}
    return {"confirmed": False, "native_runs": n, "version": version}


def bounded_search(world, unit_name):
    version = native.unit_version(unit_name) or "1.4"
    fails, n = search(version)
    return fails


def bounded(world, tier, seed, rep):
    """Bounded stand-in (never counted as proved): the real handler over the registry scope, all versions."""
    total, bad = 0, []
    for v in ("1.4", "1.5", "2.0", "2.1", "2.2"):
        fails, n = search(v)
        total += n
        bad += fails
    return {"label": "bounded", "native_failure": bad[0] if bad else None, "scope": "registries: all subsets of {0,1,2,3,253,254,255} in ascending and descending insertion order + dense 0..253, 1..254, 0..252 + a few mixed orders; x write ok/fails x 5 versions",
            "evaluations": total}
