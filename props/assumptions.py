"""Bounded differential checks of the assumed library contracts (DESIGN.md section 5) against the real dependencies.

They are evidence for the assumptions, never proof.  Each returns (number of cases, first failure or None).
"""
from __future__ import annotations

import asyncio
import itertools
import json
import random


def a_av():
    """A-AV: AwesomeVersion(s).valid / .section(i) on release-shaped strings and on junk."""
    from awesomeversion import AwesomeVersion as AV
    n = 0
    grid = [0, 1, 2, 3, 5, 10, 22, 255]
    for M, m in itertools.product(grid, grid):
        for tail in ("", ".0", ".7", ".0.1", ".12.3"):
            s = f"{M}.{m}{tail}"
            v = AV(s)
            n += 1
            if not (v.valid and v.section(0) == M and v.section(1) == m):
                return n, f"AwesomeVersion({s!r}): valid={v.valid} sections=({v.section(0)},{v.section(1)})"
    for s in ("garbage", "", "abc.def", "x", ";"):
        v = AV(s)
        n += 1
        if v.valid:
            return n, f"AwesomeVersion({s!r}).valid is True"
        try:
            v.section(0), v.section(1)
        except Exception as e:  # noqa: BLE001
            return n, f"section() raised {type(e).__name__} on {s!r}"
    return n, None


def a_str(seed=0):
    """A-STR: the lemma schemas used for rstrip / split / str(int) / int(str)."""
    rng = random.Random(seed)
    alpha = ["a", "1", ";", " ", "\n", "/", "\t", "é"]
    n = 0
    for _ in range(3000):
        s = "".join(rng.choice(alpha) for _ in range(rng.randint(0, 9)))
        sep = rng.choice([";", "/"])
        parts = s.split(sep)
        n += 1
        if sep.join(parts) != s or any(sep in p for p in parts) or len(parts) != s.count(sep) + 1:
            return n, f"split/join on {s!r}"
        for m in (1, 5):
            pm = s.split(sep, m)
            if len(pm) != min(len(parts), m + 1) or pm[:-1] != parts[:len(pm) - 1] or sep.join(pm) != s:
                return n, f"split maxsplit on {s!r}"
        r = s.rstrip()
        if not s.startswith(r) or r.rstrip() != r or (s[len(r):].strip() != ""):
            return n, f"rstrip on {s!r}"
        a, b = "".join(c for c in s if c != sep), rng.choice(["", "x", sep + "y"])
        t = a + sep + b
        if t.split(sep)[0] != a or t.split(sep, 1)[1] != b:
            return n, f"split homomorphism on {t!r}"
        if (s + "\n").rstrip() != s.rstrip():
            return n, f"rstrip(s + newline) on {s!r}"
    for k in list(range(-3, 300)) + [10 ** 12, -10 ** 9]:
        d = str(k)
        n += 1
        if int(d) != k or any(c in d for c in ";/ \n\t") or d.rstrip() != d or d == "":
            return n, f"str/int on {k}"
    return n, None


def a_mm():
    """A-MM: the marshmallow load loop as modelled (collection of ValidationErrors, propagation of other exceptions, field kinds)."""
    from marshmallow import Schema, ValidationError, fields, pre_load, validate
    n = 0

    class S(Schema):
        a = fields.Int(required=True, validate=validate.Range(min=0, max=5))
        b = fields.Str(required=True)
        c = fields.Bool()
        d = fields.Dict(keys=fields.Int(), values=fields.Str())

    cases = [({"a": "3", "b": "x"}, True), ({"a": True, "b": "x"}, False), ({"a": 9, "b": "x"}, False), ({"a": 3.7, "b": "x"}, True),
             ({"a": 3, "b": 5}, False), ({"a": 3}, False), ({"a": 3, "b": "x", "zz": 1}, False), ({"a": None, "b": "x"}, False),
             ({"a": 3, "b": "x", "d": {"1": "v"}}, True), ({"a": 3, "b": "x", "d": {"k": "v"}}, False), ({"a": 3, "b": "x", "d": []}, False),
             ({"a": [], "b": "x"}, False), (5, False), ([], False), (None, False), ("x", False)]
    for data, ok in cases:
        n += 1
        try:
            r = S().load(data)
            got = True
            if isinstance(data, dict) and data.get("a") == 3.7 and r["a"] != 3:
                return n, "Int field does not truncate a float"
        except ValidationError as e:
            got = False
            if data == {"a": 9, "b": 5} and set(e.messages) != {"a", "b"}:
                return n, "ValidationErrors are not collected"
        except Exception as e:  # noqa: BLE001
            return n, f"load({data!r}) raised {type(e).__name__}"
        if got != ok:
            return n, f"load({data!r}) accepted={got}, model says {ok}"
    try:
        S().load({"a": 9, "b": 5})
    except ValidationError as e:
        if set(e.messages) != {"a", "b"}:
            return n, f"errors collected: {e.messages}"

    class H(Schema):
        a = fields.Int()

        @pre_load
        def hook(self, data, **kw):
            return {"a": data["missing"]}
    n += 1
    try:
        H().load({})
        return n, "hook exception swallowed"
    except KeyError:
        pass
    except Exception as e:  # noqa: BLE001
        return n, f"hook KeyError became {type(e).__name__}"
    return n, None


def a_json():
    n = 0
    for x in ({1: {"a": 1}, 20: {}}, {}, {5: {"children": {3: {"values": {0: "é"}}}}}):
        n += 1
        back = json.loads(json.dumps(x, sort_keys=True, indent=2))
        if list(back) != sorted(str(k) for k in x):
            return n, f"int keys are not stringified decimals: {list(back)}"
    for lit, kind in (("NaN", float), ("Infinity", float), ("1e999", float), ("null", type(None)), ("true", bool)):
        n += 1
        if type(json.loads(lit)) is not kind:
            return n, f"json.loads({lit}) is {type(json.loads(lit))}"
    for bad in ("{", "", "{\"a\": }", "[1,"):
        n += 1
        try:
            json.loads(bad)
            return n, f"json.loads({bad!r}) succeeded"
        except ValueError:
            pass
    return n, None


def a_aio():
    """A-AIO: cancellation of a not-started / suspended task, awaiting a cancelled task, shield."""
    async def main():
        ran = []

        async def body():
            ran.append("started")
            try:
                await asyncio.sleep(10)
            except asyncio.CancelledError:
                ran.append("absorbed")

        t = asyncio.create_task(body())
        t.cancel()
        try:
            await t
            return "awaiting a cancelled, not started task did not raise"
        except asyncio.CancelledError:
            pass
        if ran:
            return "a task cancelled before it started ran"
        t = asyncio.create_task(body())
        await asyncio.sleep(0)
        t.cancel()
        await t  # absorbed -> normal return
        if ran != ["started", "absorbed"]:
            return f"suspended task: {ran}"
        inner_done = []

        async def inner():
            await asyncio.sleep(0.01)
            inner_done.append(1)

        async def outer():
            await asyncio.shield(inner())
        t = asyncio.create_task(outer())
        await asyncio.sleep(0)
        t.cancel()
        try:
            await t
            return "shielded awaiter not cancelled"
        except asyncio.CancelledError:
            pass
        await asyncio.sleep(0.03)
        if not inner_done:
            return "shielded inner coroutine was cancelled with its awaiter"
        q = asyncio.Queue()
        for i in range(3):
            q.put_nowait(i)
        if [await q.get() for _ in range(3)] != [0, 1, 2]:
            return "Queue is not FIFO"
        return None
    r = asyncio.run(main())
    return 4, r


CHECKS = {"A-AV": a_av, "A-STR": a_str, "A-MM": a_mm, "A-JSON": a_json, "A-AIO": a_aio}


def run(names):
    out = {}
    for nm in names:
        try:
            n, fail = CHECKS[nm]()
        except Exception as e:  # noqa: BLE001
            n, fail = 0, f"check crashed: {type(e).__name__}: {e}"
        out[nm] = {"label": "assumption-check, bounded", "cases": n, "failure": fail}
    return out
