"""C03 - the receive path raises only library errors."""
from . import gateway_units as gu, handlers_native as hn, handlers_common as hc

PROP = "C03"
ASSUMPTION_CHECKS = ['A-STR', 'A-MM', 'A-AV']
MIN_OBLIGATIONS = 200
TRUSTED = hc.HANDLER_TRUSTED + ["A-MM: marshmallow load loop (pyvc/mmalgo.py)", "A-STR lemma schemas (pyvc/strings.py)"]
ASSUMPTIONS = hc.HANDLER_ASSUMPTIONS + [
    "implicit raises are paths: d[k] KeyError, int()/float() ValueError, round() ValueError/OverflowError, Enum(v) ValueError, "
    "getattr AttributeError, unpacking ValueError, attribute of None AttributeError; MemoryError/RecursionError/KeyboardInterrupt are excluded",
    "Transport.read returns a str or raises TransportError (A-CLOSED); the stream transport's own read is covered by C17",
]
EXPLANATION = ("Every function on the receive path carries an exhaustive `raises` clause; an outcome Raise(E) with E outside it is the "
               "failed obligation C03/raises-only/<function>:<E>.  Gateway.listen is executed per version with the decoder inlined and the "
               "top-level handlers by contract; it must raise only AIOMySensorsError subclasses and re-establish its own precondition.")


def build(world):
    # (get_protocol and the version setter: the receive path relies on their raising nothing but ValueError)
    return (hc.build_for(world, PROP, every_unit=True) + gu.listen_units(world) + gu.send_units(world) + gu.codec_units(world, ["load_line"])
            + [u for u in gu.version_units(world) if "__init__" not in u.name])


def replay(world, ob):
    return hn.replay(PROP, world, ob)


def bounded(world, tier, seed, rep):
    return hn.bounded(PROP, tier, seed, rep)


def bounded_search(world, unit_name):
    found = hn.search(PROP, hn.VERS, seed=0, budget=800)
    return [dict(found, clause="C03/native-differential")] if found else []


def rebuild_inlined(world, failing_helpers):
    """Stale helper clauses: re-prove with the bodies of the functions whose helper clauses failed inlined into their callers."""
    bad = {h["unit"].split("[")[0] for h in failing_helpers}
    units = build(world)
    for u in units:
        u.no_contract_for = tuple(set(u.no_contract_for) | bad)
    return units
