"""C18 - MQTT transport maps topics and lines one-to-one and never goes silently deaf."""
import asyncio

from pyvc import native
from contracts import mqtt_c
from . import gateway_units as gu
from .common import BASE_TRUSTED

PROP = "C18"
ASSUMPTION_CHECKS = ['A-STR', 'A-AIO']
MIN_OBLIGATIONS = 15
TRUSTED = BASE_TRUSTED + [
    "A-STR: split/rstrip/join lemma schemas incl. fields counted from the end of a '/'-separated topic (pyvc/strings.py)",
    "A-AIO: asyncio.Queue is FIFO (modelled as a put/get log), create_task registers a task that has not run, awaiting a cancelled "
    "task raises CancelledError in the awaiter, gather runs every awaitable and propagates the first exception",
    "A-MQTT: aiomqtt publish/subscribe/__aenter__/__aexit__ raise only MqttError; client.messages never ends: it yields a message, "
    "raises MqttError, or is cancelled; a filter P/+/+/k/+/+ matches exactly the topics P/a/b/k/d/e",
]
ASSUMPTIONS = ["write() is given the line of an encoded message (what Gateway.send hands over): decoded_message == enc(m), payload without trailing whitespace",
               "echo round trip = C18/write-topic and C18/read-line composed with C01's decoder contract (same topic suffix n/c/k/a/t)",
               "broker wildcard matching is an assumed contract, not something proved about the broker"]
EXPLANATION = ("The parse functions, write, connect, disconnect, read, _receive and the receive task are executed against contracts over ghost "
               "publish/subscribe/queue logs; the receive task may leave its loop only by cancellation or after enqueueing an error.")


ALSO_PROPERTY = ("C01",)  # "echoed under the in-prefix decodes to the same message, payloads containing ';' included": C18 contains the codec round trip


def build(world):
    gu.prepare(world)
    return gu.mk(mqtt_c.units(world)) + gu.codec_units(world, ["roundtrip"])


class FakeClient:
    def __init__(self, incoming):
        self.published, self.subscribed, self._incoming = [], [], incoming

    async def __aenter__(self):
        return self

    async def __aexit__(self, *a):
        return None

    async def publish(self, topic, **kw):
        self.published.append((topic, kw.get("payload"), kw.get("qos")))

    async def subscribe(self, topic, **kw):
        self.subscribed.append((topic, kw.get("qos")))

    @property
    def messages(self):
        async def gen():
            for m in self._incoming:
                yield m
            await asyncio.sleep(3600)
        return gen()


class Msg:
    def __init__(self, topic, payload):
        self.topic = type("T", (), {"value": topic})()
        self.payload = payload


def native_search():
    native.import_repo()
    import aiomysensors.transport.mqtt as mq
    from aiomysensors.exceptions import TransportError
    n = 0
    for outp in ("mygateway1-in", "a/b"):
        for line, exp in [("1;2;1;0;49;1;2;3\n", ("1/2/1/0/49", "1;2;3", 0)), ("255;255;3;1;3;\n", ("255/255/3/1/3", "", 1)), ("0;0;1;0;2;x y\n", ("0/0/1/0/2", "x y", 0))]:
            t = mq.MQTTClient("h", in_prefix="in/p", out_prefix=outp)
            n += 1
            try:
                got = t._parse_message_to_mqtt(line)
            except Exception as e:  # noqa: BLE001
                return {"write": line, "observed": f"{type(e).__name__}: {e}"}, n
            if got != (f"{outp}/{exp[0]}", exp[1], exp[2]):
                return {"write": line, "observed": got, "expected": (f"{outp}/{exp[0]}",) + exp[1:]}, n
    for inp in ("mygateway1-out", "x/y/z"):
        n += 1
        got = mq.MQTTTransport._parse_mqtt_to_message(f"{inp}/1/2/1/0/49", "1;2;3")
        if got != "1;2;1;0;49;1;2;3":
            return {"topic": f"{inp}/1/2/1/0/49", "observed": got}, n

    # the echo of a written message decodes to the message (MQTT payloads may hold any character, line boundaries included)
    from aiomysensors.model.message import Message, MessageSchema
    from aiomysensors.model.protocol import get_protocol
    for ver in ("1.4", "2.2"):
        sch = MessageSchema()
        sch.set_protocol(get_protocol(ver))
        for payload in ("", "a;b", "x/y", "é", "line one\nline two", "first\u2028second", "\x01\x02\x1c\x1d\x7f", "a\x0bb", "tab\tin"):
            t = mq.MQTTClient("h", in_prefix="home/in", out_prefix="home/out")
            m = Message(12, 3, 1, 0, 47, payload)
            n += 1
            try:
                topic, pl, qos = t._parse_message_to_mqtt(sch.dump(m))
                line = mq.MQTTTransport._parse_mqtt_to_message("home/in/" + topic[len("home/out/"):], pl)
                back = sch.load(line + "\n")
                got = (back.node_id, back.child_id, back.command, back.ack, back.message_type, back.payload)
            except Exception as e:  # noqa: BLE001
                return {"echo": repr(payload), "version": ver, "observed": f"{type(e).__name__}: {e}"}, n
            if got != (12, 3, 1, 0, 47, payload):
                return {"echo": repr(payload), "version": ver, "observed": f"the echoed message decodes to {got}"}, n

    async def scenario():
        t = mq.MQTTClient("h", in_prefix="in")
        fake = FakeClient([Msg("in/1/1/1/0/2", b"\xff\xfe"), Msg("in/1/1/1/0/2", b"ok")])
        mq.AsyncioClient = lambda *a, **k: fake
        await t.connect()
        if sorted(fake.subscribed) != sorted((f"in/+/+/{k}/+/+", 0) for k in range(5)):
            return f"subscriptions {fake.subscribed}"
        out = []
        for _ in range(2):
            try:
                out.append(await asyncio.wait_for(t.read(), 10))
            except TransportError as e:
                out.append(f"transport-error:{type(e).__name__}")
            except asyncio.TimeoutError:
                out.append("SILENT")
        try:
            await t.disconnect()
        except BaseException as e:  # noqa: BLE001
            return f"disconnect raised {type(e).__name__}"
        if out != ["transport-error:TransportFailedError", "1;1;1;0;2;ok"]:
            return f"reads after an undecodable payload: {out}"
        return None
    orig = mq.AsyncioClient
    try:
        r = asyncio.run(scenario())
    finally:
        mq.AsyncioClient = orig
    n += 1
    if r:
        return {"scenario": "connect; undecodable payload then a good one; two reads; disconnect", "observed": r}, n

    async def burst(k=600):
        # a consumer that is slow: k broker messages arrive before the first read; each must be read exactly once, in order
        t = mq.MQTTClient("h", in_prefix="in")
        fake = FakeClient([Msg(f"in/{i % 200};1;1;0;2".replace(";", "/"), str(i).encode()) for i in range(k)])
        mq.AsyncioClient = lambda *a, **k_: fake
        await t.connect()
        for _ in range(5):
            await asyncio.sleep(0)
        await asyncio.sleep(0.05)
        got = []
        for i in range(k):
            try:
                got.append(await asyncio.wait_for(t.read(), 10))
            except TransportError as e:
                got.append(f"transport-error:{type(e).__name__}")
            except asyncio.TimeoutError:
                got.append("SILENT")
                break
        try:
            await t.disconnect()
        except BaseException as e:  # noqa: BLE001
            return f"disconnect after a burst raised {type(e).__name__}"
        want = [f"{i % 200};1;1;0;2;{i}" for i in range(k)]
        if got != want:
            j = next((j for j, (a, b) in enumerate(zip(got + ["<end>"], want + ["<end>"])) if a != b), len(got))
            return f"burst of {k} messages before the first read: read #{j} is {got[j] if j < len(got) else '<nothing>'!r}, expected {want[j] if j < len(want) else '<nothing>'!r}"
        return None
    try:
        r = asyncio.run(burst())
    finally:
        mq.AsyncioClient = orig
    n += 1
    if r:
        return {"scenario": "connect; 600 broker messages before the first read; read them all; disconnect", "observed": r}, n

    async def waiting_reader():
        # the listener's normal state: a read is already waiting when the broker delivers a message, and when it fails
        from aiomqtt import MqttError
        feed = asyncio.Queue()

        class Live(FakeClient):
            @property
            def messages(self):
                async def gen():
                    while True:
                        kind, x = await feed.get()
                        if kind == "err":
                            raise x
                        yield x
                return gen()
        t = mq.MQTTClient("h", in_prefix="in/p")
        fake = Live([])
        mq.AsyncioClient = lambda *a, **k_: fake
        await t.connect()
        rd = asyncio.create_task(t.read())
        await asyncio.sleep(0.01)
        feed.put_nowait(("msg", Msg("in/p/1/2/1/0/0", b"20.5;C")))
        try:
            got = await asyncio.wait_for(rd, 10)
        except BaseException as e:  # noqa: BLE001
            return f"a read that was waiting when a message arrived: {type(e).__name__}"
        if got != "1;2;1;0;0;20.5;C":
            return f"a read that was waiting when a message arrived returned {got!r}"
        # one undecodable payload is one error: reported to the read it answers, and the read after it - on a queue that is
        # empty again - waits for the next message instead of failing a second time (seed C18h: the error was remembered)
        rd = asyncio.create_task(t.read())
        await asyncio.sleep(0.01)
        feed.put_nowait(("msg", Msg("in/p/1/2/1/0/0", b"\xff\xfe")))
        try:
            got = await asyncio.wait_for(rd, 10)
            return f"a read that was waiting when an undecodable payload arrived returned {got!r}"
        except TransportError:
            pass
        except BaseException as e:  # noqa: BLE001
            return f"a read that was waiting when an undecodable payload arrived: {type(e).__name__}"
        for k in range(2):
            rd = asyncio.create_task(t.read())
            await asyncio.sleep(0.05)
            if rd.done():
                what = f"raised {type(rd.exception()).__name__}" if rd.exception() else f"returned {rd.result()!r}"
                return f"read #{k + 1} after a reported undecodable payload, nothing new from the broker: it {what} instead of waiting"
            feed.put_nowait(("msg", Msg("in/p/1/2/1/0/0", f"2{k}.5".encode())))
            try:
                got = await asyncio.wait_for(rd, 10)
            except BaseException as e:  # noqa: BLE001
                return f"read #{k + 1} after a reported undecodable payload: {type(e).__name__} for a good message"
            if got != f"1;2;1;0;0;2{k}.5":
                return f"read #{k + 1} after a reported undecodable payload returned {got!r}"
        rd = asyncio.create_task(t.read())
        await asyncio.sleep(0.01)
        feed.put_nowait(("err", MqttError("Disconnected during message iteration")))
        try:
            got = await asyncio.wait_for(rd, 10)
            out = f"returned {got!r}"
        except TransportError:
            out = None
        except asyncio.TimeoutError:
            out = "is still blocked 10 s after the broker error (the transport went deaf silently)"
        except BaseException as e:  # noqa: BLE001
            out = f"raised {type(e).__name__}"
        try:
            await t.disconnect()
        except BaseException as e:  # noqa: BLE001
            return f"disconnect after a broker error raised {type(e).__name__}"
        return f"a read that was waiting when the broker failed {out}" if out else None
    try:
        r = asyncio.run(waiting_reader())
    finally:
        mq.AsyncioClient = orig
    n += 1
    if r:
        return {"scenario": "connect; read waiting; message; read waiting; undecodable payload; two reads that must wait; broker error; disconnect", "observed": r}, n
    return None, n


def replay(world, ob):
    f, n = native_search()
    return dict(f, confirmed=True, native_runs=n) if f else {"confirmed": False, "native_runs": n}


def bounded(world, tier, seed, rep):
    f, n = native_search()
    return {"label": "bounded", "scope": "6 encoded lines x 2 out-prefixes, 2 in-prefixes, and three scenarios with a fake aiomqtt client: undecodable then good payload; a burst of 600 messages before the first read; a read already waiting when a message, an undecodable payload (then two reads that must wait for the next message) and then a broker error arrive",
            "evaluations": n, "native_failure": f}


def bounded_search(world, unit_name):
    f, n = native_search()
    return [dict(f, clause="C18/native-mqtt")] if f else []


def rebuild_inlined(world, failing_helpers):
    """Stale helper clauses: re-prove with the bodies of the functions whose helper clauses failed inlined into their callers."""
    bad = {h["unit"].split("[")[0] for h in failing_helpers}
    units = build(world)
    broken_invariants = {h["name"] for h in failing_helpers if h["name"].startswith("wf/")}
    for u in units:
        u.no_contract_for = tuple(set(u.no_contract_for) | bad)
        if broken_invariants:
            # a class invariant the constructor no longer establishes may not be assumed by the methods any more
            u.contract.requires = [r for r in u.contract.requires if getattr(r, "id", None) not in broken_invariants]
    return units
