"""Native replay / bounded search for the codec properties C01 and C02 (real MessageSchema vs. the property text)."""
from __future__ import annotations

import itertools

from pyvc import native
from . import refmodel as rm

VERS = ["1.4", "1.5", "2.0", "2.1", "2.2"]
PAYLOADS = ["", "57", "20.0", ";", "a;b", "55.7;12.5;0", " x", "x;", ";;", "é", "a/b", "Line 1\tcol 2", "21.5\xa0°C", "\x1b[2Jhello", "a\x00b", "x" * 26,
            "A text for the display that is longer than a radio frame", "x" * 300, "a\x7fb", "tab\tend", "\u2028x", "a b  c"]
FIELDS = ["0", "1", "255", "256", "-1", "3", "4", "5", "x", "", " 1", "1_0", "99999999999999999999"]


def schema(version):
    native.import_repo()
    from aiomysensors.model.message import MessageSchema
    from aiomysensors.model.protocol import get_protocol
    s = MessageSchema()
    s.set_protocol(get_protocol(version))
    return s


def check_line(version, line):
    """C02: accepted iff well formed, decoded literally, only ValidationError otherwise. Returns failure text or None."""
    from marshmallow import ValidationError
    exp = rm.decode(line)
    try:
        m = schema(version).load(line)
    except ValidationError:
        return None if exp is None else f"well-formed line {line!r} rejected"
    except Exception as e:  # noqa: BLE001
        return f"line {line!r}: {type(e).__name__}: {e} instead of a validation error"
    got = (m.node_id, m.child_id, m.command, m.ack, m.message_type, m.payload)
    if exp is None:
        return f"malformed line {line!r} accepted as {got}"
    if tuple(exp) != got:
        return f"line {line!r} decoded to {got}, spelled {tuple(exp)}"
    return None


def check_message(version, fields):
    """C01: dump is exactly one line n;c;k;a;t;p\\n and load(dump(m)) == m; re-encoding reproduces the line."""
    from aiomysensors.model.message import Message
    n, c, k, a, t, p = fields
    s = schema(version)
    line = s.dump(Message(n, c, k, a, t, p))
    if line != f"{n};{c};{k};{a};{t};{p}\n":
        return f"dump of {fields} is {line!r}"
    try:
        m = s.load(line)
    except Exception as e:  # noqa: BLE001
        return f"load(dump({fields})) raised {type(e).__name__}: {e}"
    got = (m.node_id, m.child_id, m.command, m.ack, m.message_type, m.payload)
    if got != tuple(fields):
        return f"load(dump({fields})) == {got}"
    if s.dump(m) != line:
        return f"re-encoding {line!r} gives {s.dump(m)!r}"
    return None


def decode_on(s, line):
    from marshmallow import ValidationError
    try:
        m = s.load(line)
        return ("ok", m.node_id, m.child_id, m.command, m.ack, m.message_type, m.payload)
    except ValidationError:
        return ("rejected",)
    except Exception as e:  # noqa: BLE001
        return ("error", type(e).__name__)


STATEFUL_LINES = ["1;5;3;0;3;", "1;5;3;0;0;0", "1;5;3;0;4;7", "1;5;4;0;0;", "1;255;3;0;0;55", "1;5;1;0;0;1", "1;5;3;0;11;x", "2;7;3;0;3;", "2;7;3;0;6;",
                  "2;7;0;0;6;d", "2;7;3;0;6;", "0;255;3;0;2;2.2", "0;0;3;0;2;2.2", "1;255;0;0;17;2.2", "1;255;1;0;0;1", "1;0;5;0;0;", "1;0;1;0;0;x;y",
                  "1;0;1;0;0;x", "300;0;1;0;0;x", "1;0;1;0;0;x", "1;0;1;2;0;x", "1;0;1;1;0;x", "1;0;1;0;99;x", "1;0;1;0;0;x", "1;5;3;0;3;", "1;5;3;0;6;"]


def check_stateless(version):
    """The decoder is a function of (protocol, line): decoding a line on a schema that has already decoded other lines gives
    what a fresh schema gives.  Returns (failure or None, evaluations)."""
    n = 0
    for order in (STATEFUL_LINES, list(reversed(STATEFUL_LINES))):
        shared = schema(version)
        history = []
        for line in order:
            got, want = decode_on(shared, line + "\n"), decode_on(schema(version), line + "\n")
            n += 1
            if got != want:
                return {"version": version, "line": line, "after": history[-6:], "observed": f"on a schema that decoded the earlier lines: {got}; on a fresh schema: {want}"}, n
            history.append(line)
    return None, n


def wf(fields):
    n, c, k, a, t, p = fields
    return rm.decode(rm.enc(n, c, k, a, t, p)) is not None and p == p.rstrip() and "\n" not in p and "\r" not in p


def search(prop, versions=VERS, first_lines=(), first_msgs=(), budget=12000):
    n = 0
    for v in versions:
        for line in first_lines:
            r = check_line(v, line)
            n += 1
            if r:
                return {"version": v, "line": line, "observed": r}, n
        for f in first_msgs:
            if wf(f):
                r = check_message(v, f)
                n += 1
                if r:
                    return {"version": v, "message": list(f), "observed": r}, n
    if prop == "C02":
        for v in versions:
            bad, k = check_stateless(v)
            n += k
            if bad:
                return bad, n
        lines = ["", "1;2", "1;2;3", "1;2;3;0", "1;2;3;0;0", "x;2", ";;;;;", "1;1;1;0;0;x;y", "1;1;1;0;0;x\n", " 1 ; 2;1;0;0;x"]
        for combo in itertools.product(FIELDS[:9], ["0", "255", "256", "-1", "x"], ["0", "1", "3", "4", "5"], ["0", "1", "2"], ["0", "3", "x"]):
            lines.append(";".join(combo) + ";p")
        if len(lines) * len(versions) > budget:
            # a smaller budget thins the pool out evenly instead of cutting its tail off
            step = -(-len(lines) * len(versions) // budget)
            lines = lines[:10] + lines[10::step]
        for v in versions:
            for line in lines:
                r = check_line(v, line)
                n += 1
                if r:
                    return {"version": v, "line": line, "observed": r}, n
    else:
        for v in versions:
            for nn, c, k, a, t in [(1, 1, 1, 0, 49), (255, 255, 3, 1, 3), (0, 255, 0, 0, 17), (12, 34, 3, 0, 4), (1, 0, 2, 1, 0), (7, 255, 4, 0, 1)]:
                for p in PAYLOADS:
                    f = (nn, c, k, a, t, p)
                    if wf(f):
                        r = check_message(v, f)
                        n += 1
                        if r:
                            return {"version": v, "message": list(f), "observed": r}, n
    return None, n


def replay(prop, world, ob):
    m = ob.get("model") or {}
    v = native.unit_version(ob["unit"])
    versions = [v] if v else VERS
    lines, msgs = [], []
    if isinstance(m.get("line"), str):
        lines.append(m["line"])
    if isinstance(m.get("read_line"), str):
        lines.append(m["read_line"])
    if isinstance(m.get("s"), str):
        lines.append(m["s"])
    ints = [m.get(k) for k in ("fn", "fc", "fk", "fa", "ft")]
    if all(isinstance(x, int) and not isinstance(x, bool) for x in ints):
        # the field values of the solver's model (int() of a field is an uninterpreted function of its text: the model's text
        # need not spell the model's numbers, so the line is rebuilt from the numbers)
        for p in ("p", "", "a;b"):
            lines.append(";".join(str(x) for x in ints) + ";" + p)
    mm = m.get("m") or m.get("message")
    if isinstance(mm, dict) and all(isinstance(mm.get(f), int) for f in ("node_id", "child_id", "command", "ack", "message_type")):
        base = [mm[f] for f in ("node_id", "child_id", "command", "ack", "message_type")]
        for p in ([mm.get("payload")] if isinstance(mm.get("payload"), str) else []) + PAYLOADS:
            msgs.append(tuple(base + [p]))
    found, n = search(prop, versions, lines, msgs)
    if found:
        return dict(found, confirmed=True, native_runs=n)
    return {"confirmed": False, "native_runs": n}


def bounded(prop, tier, seed, rep):
    found, n = search(prop, VERS, budget=12000 if tier == "quick" else 40000)
    return {"label": "bounded", "scope": "lines over the field pool x 5 versions / messages over boundary ids x payload pool x 5 versions",
            "evaluations": n, "native_failure": found}
