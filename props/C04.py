"""C04 - proved on the incoming-handler chain (see contracts/handlers_c.py and DESIGN.md section 8)."""
from . import handlers_common as hc
from . import handlers_native as hn

PROP = "C04"
MIN_OBLIGATIONS = 50
TRUSTED = hc.HANDLER_TRUSTED
ASSUMPTIONS = hc.HANDLER_ASSUMPTIONS
EXPLANATION = ("Every function between the leaf handlers and the dispatch is symbolically executed from the parsed source, once per "
               "protocol version, against a contract derived from the leaf effect specifications (written from the property text) "
               "through the same decorators and dispatch the code uses; callees are replaced by their derived contracts.")



def owns(ob_):
    # what a private helper returns is observable only through its callers, whose own clause of the same name is a property clause;
    # on the helper it is a helper clause (a caller that returns the message itself does not need it: benign/two_1_2)
    return not (ob_["name"] == "C04/yields-the-message" and "._handle_sleep_buffer" in ob_.get("unit", ""))

def build(world):
    from . import gateway_units as gu
    return hc.build_for(world, PROP) + gu.model_units(world)


def extra_checks(world):
    return hc.dispatch_obligations(world, PROP)


def replay(world, ob):
    return hn.replay(PROP, world, ob)


def bounded(world, tier, seed, rep):
    return hn.bounded(PROP, tier, seed, rep)


def bounded_search(world, unit_name):
    from pyvc import native
    v = native.unit_version(unit_name)
    found = hn.search(PROP, [v] if v else hn.VERS, seed=0, budget=600)
    return [dict(found, clause=f"{PROP}/native-differential")] if found else []


def rebuild_inlined(world, failing_helpers):
    """Re-prove with the bodies of the functions whose helper clauses failed inlined into their callers."""
    bad = {h["unit"].split("[")[0] for h in failing_helpers}
    units = build(world)
    for u in units:
        u.no_contract_for = tuple(set(u.no_contract_for) | bad)
    return units
