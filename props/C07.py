"""C07 - proved on the incoming-handler chain (see contracts/handlers_c.py and DESIGN.md section 8)."""
from . import handlers_common as hc
from . import handlers_native as hn

PROP = "C07"
MIN_OBLIGATIONS = 50
TRUSTED = hc.HANDLER_TRUSTED
ASSUMPTIONS = hc.HANDLER_ASSUMPTIONS
EXPLANATION = ("Every function between the leaf handlers and the dispatch is symbolically executed from the parsed source, once per "
               "protocol version, against a contract derived from the leaf effect specifications (written from the property text) "
               "through the same decorators and dispatch the code uses; callees are replaced by their derived contracts.")


def build(world):
    from . import gateway_units as gu
    units = hc.build_for(world, PROP)
    # the sending side of the property: parked while the destination sleeps, written at once otherwise - and a value written
    # at once supersedes an older one still parked for its key (the outgoing set handler and Gateway.send, proved for C12 too)
    units += [u for u in gu.send_units(world) if "handle_set" in u.name or "Gateway.send[" in u.name]
    # "1.x with a sleeping flag restored from persistence": the flag a node is constructed with is the flag it has
    units += [u for u in gu.model_units(world) if "Node.__init__" in u.name]
    return units


def extra_checks(world):
    return hc.dispatch_obligations(world, PROP)


def replay(world, ob):
    return hn.replay(PROP, world, ob)


def bounded(world, tier, seed, rep):
    return hn.bounded(PROP, tier, seed, rep)


def bounded_search(world, unit_name):
    from pyvc import native
    v = native.unit_version(unit_name)
    found = hn.search(PROP, [v] if v else hn.VERS, seed=0, budget=600)
    return [dict(found, clause=f"{PROP}/native-differential")] if found else []


def rebuild_inlined(world, failing_helpers):
    """Re-prove with the bodies of the functions whose helper clauses failed inlined into their callers."""
    bad = {h["unit"].split("[")[0] for h in failing_helpers}
    units = build(world)
    for u in units:
        u.no_contract_for = tuple(set(u.no_contract_for) | bad)
    return units
