"""C16 - gateway context: load on entry, periodic and final save, no leftovers."""
import asyncio
import json
import os
import tempfile

from pyvc import native
from contracts import persistence_c
from . import gateway_units as gu
from .common import BASE_TRUSTED

PROP = "C16"
ASSUMPTION_CHECKS = ['A-AIO']
MIN_OBLIGATIONS = 20
TRUSTED = BASE_TRUSTED + [
    "A-AIO: single event loop; create_task registers a task that has not started; cancel() on a not-started task finishes it without running; "
    "on a suspended task it raises CancelledError at its current await; awaiting a cancelled task raises CancelledError in the awaiter unless "
    "the task body absorbed the cancellation and returned; sleep(d) is an await site",
    "A-FS: aiofiles open/write/close (see C14/C15)", "A-TRANSPORT: connect/disconnect return or raise TransportError",
]
ASSUMPTIONS = [
    "which await sites of the saver absorb a cancellation is derived from the saver body by the units save_on_schedule[cancel@save] / [cancel@sleep] "
    "(C16/saver-cancellation-table) and then used by the task-await model",
    "threads are not modelled (aiofiles' executor thread finishing a cancelled write is outside the property); real time is the sleep argument",
    "a failing final save (PersistenceWriteError) propagates out of the context: the property's 'writes the final registry' presumes a writable file",
]
EXPLANATION = ("__aenter__, __aexit__, Persistence.start/stop/save and the two saver closures are executed against contracts over ghost counters "
               "(live background tasks, completed file writes, connection state); cancellation is an exceptional outcome of the saver's awaits.")


def build(world):
    gu.prepare(world)
    units = gu.mk(persistence_c.c16_units(world))
    # the context manager connects and disconnects through the abstract Transport contract; the concrete transports' own
    # connect / disconnect must not leave a task behind either (stream transports: C17's units, MQTT: C18's)
    from contracts import transport_c, mqtt_c
    units += [u for u in gu.mk(transport_c.units(world)) if ".disconnect[" in u.name or ".connect[" in u.name]
    units += [u for u in gu.mk(mqtt_c.units(world)) if u.name.endswith(".disconnect") or u.name.endswith(".connect")]
    return units


def native_search():
    native.import_repo()
    from aiomysensors.gateway import Config, Gateway
    from aiomysensors.exceptions import TransportError
    n = 0
    d = tempfile.mkdtemp(prefix="c16_")
    try:
        for scenario in ("exit-at-once", "exit-after-yield", "exit-during-slow-first-save", "exit-while-saver-sleeps", "connect-fails", "disconnect-fails", "body-raises"):
            path = os.path.join(d, scenario + ".json")

            async def run(scenario=scenario, path=path):
                tr = native.make_transport()
                import aiofiles.threadpool as tp
                import time as _time
                orig_open = tp.sync_open
                if scenario == "exit-during-slow-first-save":
                    def slow_open(*a, **k):
                        _time.sleep(0.05)
                        return orig_open(*a, **k)
                    tp.sync_open = slow_open
                try:
                    return await run2(scenario, path, tr)
                finally:
                    tp.sync_open = orig_open

            async def run2(scenario, path, tr):
                if scenario == "connect-fails":
                    async def bad():
                        raise TransportError("no")
                    tr.connect = bad
                if scenario == "disconnect-fails":
                    async def badd():
                        raise TransportError("no")
                    tr.disconnect = badd
                gw = Gateway(tr, Config(persistence_file=path))
                before = len(asyncio.all_tasks())
                err = None
                try:
                    async with gw:
                        if scenario in ("exit-after-yield", "exit-during-slow-first-save"):
                            await asyncio.sleep(0)
                            await asyncio.sleep(0)
                        if scenario == "exit-while-saver-sleeps":
                            for _ in range(5):
                                await asyncio.sleep(0.01)
                        if scenario == "body-raises":
                            raise KeyError("app")
                        from aiomysensors.model.node import Node
                        gw.nodes[7] = Node(7, 17, "2.2")
                except (TransportError, KeyError) as e:
                    err = type(e).__name__
                except BaseException as e:  # noqa: BLE001
                    return f"{scenario}: {type(e).__name__} escaped the context"
                await asyncio.sleep(0)
                left = len(asyncio.all_tasks()) - before
                if left:
                    return f"{scenario}: {left} background task(s) left running"
                if scenario not in ("connect-fails", "body-raises"):
                    await asyncio.sleep(0.15)  # a detached writer would overwrite the final save by now
                    with open(path) as f:
                        text = f.read()
                    try:
                        saved = json.loads(text)
                    except ValueError:
                        return f"{scenario}: the file left behind is not the final registry (unparseable: {text[:80]!r})"
                    if "7" not in saved:
                        return f"{scenario}: final registry not saved ({saved})"
                return None
            n += 1
            r = asyncio.run(run())
            if r:
                return {"scenario": scenario, "observed": r}, n
        # leaving through cancellation of the body's own task, while the saver is inside its first save (slow open) and while it sleeps
        for when in ("during-slow-first-save", "while-saver-sleeps"):
            path = os.path.join(d, "cancel-" + when + ".json")

            async def cancelled_body(when=when, path=path):
                import aiofiles.threadpool as tp
                import time as _time
                orig_open = tp.sync_open
                if when == "during-slow-first-save":
                    def slow_open(*a, **k):
                        _time.sleep(0.05)
                        return orig_open(*a, **k)
                    tp.sync_open = slow_open
                tr = native.make_transport()
                gw = Gateway(tr, Config(persistence_file=path))
                inside = asyncio.Event()

                async def body():
                    async with gw:
                        from aiomysensors.model.node import Node
                        gw.nodes[7] = Node(7, 17, "2.2")
                        inside.set()
                        await asyncio.sleep(3600)
                try:
                    before = len(asyncio.all_tasks())
                    t = asyncio.create_task(body())
                    await inside.wait()
                    if when == "while-saver-sleeps":
                        await asyncio.sleep(0.2)
                    t.cancel()
                    try:
                        await t
                    except asyncio.CancelledError:
                        pass
                    except BaseException as e:  # noqa: BLE001
                        return f"{type(e).__name__} escaped the cancelled context"
                    await asyncio.sleep(0.2)
                    left = len(asyncio.all_tasks()) - before
                    if left:
                        return f"{left} background task(s) left running after the body's task was cancelled"
                    with open(path) as f:
                        text = f.read()
                    try:
                        saved = json.loads(text)
                    except ValueError:
                        return f"the file left behind is not the final registry (unparseable: {text[:80]!r})"
                    if "7" not in saved:
                        return f"final registry not saved after the body's task was cancelled ({saved})"
                    return None
                finally:
                    tp.sync_open = orig_open
            n += 1
            r = asyncio.run(cancelled_body())
            if r:
                return {"scenario": f"body task cancelled {when}", "observed": r}, n
        # every built-in transport kind: an MQTT connect whose k-th subscription is refused must leave no receive task behind
        import aiomysensors.transport.mqtt as mq
        from aiomqtt import MqttError

        class Refusing:
            def __init__(self, k):
                self.k, self.n = k, 0

            async def __aenter__(self):
                return self

            async def __aexit__(self, *a):
                return None

            async def publish(self, *a, **kw):
                return None

            async def subscribe(self, topic, **kw):
                self.n += 1
                if self.n == self.k:
                    raise MqttError("subscription refused")

            @property
            def messages(self):
                async def gen():
                    await asyncio.sleep(3600)
                    yield None
                return gen()
        orig = mq.AsyncioClient
        try:
            for k in (1, 3, 5):
                async def mqtt_case(k=k):
                    mq.AsyncioClient = lambda *a, **kw: Refusing(k)
                    gw = Gateway(mq.MQTTClient("h"), Config())
                    try:
                        async with gw:
                            return "the context was entered although a subscription was refused"
                    except TransportError:
                        pass
                    except BaseException as e:  # noqa: BLE001
                        return f"{type(e).__name__} escaped instead of a transport error"
                    await asyncio.sleep(0)
                    left = [t for t in asyncio.all_tasks() if t is not asyncio.current_task()]
                    return f"{len(left)} background task(s) left after a failed connect: {[t.get_coro().__qualname__ for t in left]}" if left else None
                n += 1
                r = asyncio.run(mqtt_case())
                if r:
                    return {"scenario": f"MQTT transport, subscription #{k} of connect() refused by the broker", "observed": r}, n
        finally:
            mq.AsyncioClient = orig
    finally:
        import shutil
        shutil.rmtree(d, ignore_errors=True)
    return None, n


def replay(world, ob):
    f, n = native_search()
    return dict(f, confirmed=True, native_runs=n) if f else {"confirmed": False, "native_runs": n}


def bounded(world, tier, seed, rep):
    f, n = native_search()
    return {"label": "bounded", "scope": "six context scenarios (exit at once / after one yield / while the saver sleeps, connect fails, disconnect fails, body raises) on real files",
            "evaluations": n, "native_failure": f}


def bounded_search(world, unit_name):
    f, n = native_search()
    return [dict(f, clause="C16/native-context")] if f else []


def rebuild_inlined(world, failing_helpers):
    bad = {h["unit"].split("[")[0] for h in failing_helpers}
    units = build(world)
    for u in units:
        u.no_contract_for = tuple(set(u.no_contract_for) | bad)
    return units
