"""Replay of counter-models and bounded native search for the handler-chain properties, using props/refmodel.py."""
from __future__ import annotations

import random

from pyvc import native
from . import refmodel as rm

VERS = ["1.4", "1.5", "2.0", "2.1", "2.2"]


def _dict(d):
    return (d or {}).get("__dict__", {}) if isinstance(d, dict) else {}


def state_from_model(m):
    gw = m.get("gateway") or {}
    st = {"nodes": {}, "pending": {}, "outstanding": []}
    for k, nd in _dict(gw.get("nodes")).items():
        try:
            n = int(k)
        except ValueError:
            continue
        if not isinstance(nd, dict) or not 0 <= n <= 255 or nd.get("node_id") != n:
            continue
        children = {}
        for ck, ch in _dict(nd.get("children")).items():
            try:
                c = int(ck)
            except ValueError:
                continue
            if isinstance(ch, dict) and 0 <= c <= 255 and ch.get("child_id") == c:
                vals = {}
                for tk, tv in _dict(ch.get("values")).items():
                    try:
                        vals[int(tk)] = str(tv)
                    except ValueError:
                        pass
                children[c] = {"type": ch.get("child_type", 0) if isinstance(ch.get("child_type"), int) else 0,
                               "desc": str(ch.get("description", "")), "values": vals}
        st["nodes"][n] = {"type": nd.get("node_type", 17) if isinstance(nd.get("node_type"), int) else 17,
                          "ver": str(nd.get("protocol_version", "")), "battery": nd.get("battery_level", 0) if isinstance(nd.get("battery_level"), int) else 0,
                          "heartbeat": nd.get("heartbeat", 0) if isinstance(nd.get("heartbeat"), int) else 0,
                          "sketch_name": str(nd.get("sketch_name", "")), "sketch_version": str(nd.get("sketch_version", "")),
                          "sleeping": bool(nd.get("sleeping", False)), "reboot": bool(nd.get("reboot", False)), "children": children}
    buf = gw.get("_message_buffer") or m.get("message_buffer") or {}
    for k, msg in _dict(buf.get("set_messages")).items():
        if isinstance(msg, dict) and all(isinstance(msg.get(f), int) for f in ("node_id", "child_id", "message_type")):
            n, c, t = msg["node_id"], msg["child_id"], msg["message_type"]
            if 0 <= n <= 255 and 0 <= c <= 254:
                st["pending"][(n, c, t)] = str(msg.get("payload", ""))
    for k, msg in _dict(buf.get("internal_messages")).items():
        if isinstance(msg, dict) and msg.get("message_type") == 19 and isinstance(msg.get("node_id"), int) and 0 <= msg["node_id"] <= 255:
            st["outstanding"].append(msg["node_id"])
    version = gw.get("_protocol_version")
    metric = (gw.get("config") or {}).get("metric", True)
    return st, (version if isinstance(version, str) else None), bool(metric)


PAYLOAD_POOL = ["", "1", "20.5", "abc", "inf", "nan", "150", "-3", "55", "2.2.0", "2.0.0", "1.5.1", "garbage", "a;b", "7"]


def dispatched_fields(unit, ver, k, t, c):
    import re
    m = re.search(r"\.handle_(i_[a-z0-9_]+|presentation|set|req|internal|stream)\b", unit)
    if not m:
        return k, t, c
    h = m.group(1)
    if h.startswith("i_"):
        native.import_repo()
        from aiomysensors.model.protocol import get_protocol
        try:
            t = int(getattr(get_protocol(ver or "2.2").Internal, h.upper()))
        except AttributeError:
            return k, t, c
        return 3, t, (c if t in (3, 4) else 255)
    k = {"presentation": 0, "set": 1, "req": 2, "internal": 3, "stream": 4}[h]
    mt = re.search(r"\[type=(\d+)\]", unit)
    if mt:
        t = int(mt.group(1))
    if k in (3, 4) and t not in (3, 4):
        c = 255
    return k, t, c


def replay(prop, world, ob):
    """Replay a counter-model: same pre-state into the real gateway and the reference, one received line."""
    m = ob.get("model") or {}
    if ob.get("backend") == "structural" and m.get("lines"):
        # a table obligation: its witness is a list of lines; each one from a known, awake node with one child under the named version
        state = {"nodes": {1: {"children": {1: {"type": 6}}}}}
        tried = []
        for line in m["lines"]:
            for payload_line in (line, line.rsplit(";", 1)[0] + ";"):
                try:
                    diffs = rm.run_history(m.get("version"), [("recv", payload_line)], state=state)
                except Exception as e:  # noqa: BLE001
                    tried.append({"line": payload_line, "harness-error": repr(e)})
                    continue
                hit = [d for d in diffs if prop in d[0]]
                tried.append({"line": payload_line, "diffs": [d[1] for d in diffs][:2]})
                if hit:
                    return {"confirmed": True, "version": m.get("version"), "pre_state": "node 1 with child 1 known", "line": payload_line, "observed": hit[0][1]}
        return {"confirmed": False, "tried": tried[:6]}
    st, mver, metric = state_from_model(m)
    uver = native.unit_version(ob["unit"])
    msg = m.get("message") or {}
    tried = []
    fields = [msg.get(f) for f in ("node_id", "child_id", "command", "ack", "message_type")]
    payloads = [msg.get("payload")] if isinstance(msg.get("payload"), str) else []
    payloads += [p for p in PAYLOAD_POOL if p not in payloads]
    versions = [v for v in [uver] if v] or VERS
    if all(isinstance(x, int) for x in fields):
        n, c, k, a, t = fields
        a = a if a in (0, 1) else 0
        # a leaf handler is a unit of its own: the fields the dispatch has already fixed are not part of its path condition, so
        # the model leaves them arbitrary - they are read off the handler's name
        k, t, c = dispatched_fields(ob["unit"], uver, k, t, c)
        for ver in versions:
            # under 1.4 rules the version may be unknown; otherwise it is the unit's version
            for known in ([ver] if ver != "1.4" else [mver if (mver and rm.select(mver) == (1, 4)) else None, "1.4"]):
                for p in payloads[:8]:
                    line = rm.enc(n, c, k, a, t, p)
                    if rm.decode(line) is None:
                        continue
                    try:
                        diffs = rm.run_history(known, [("recv", line)], state=st, metric=metric)
                    except Exception as e:  # noqa: BLE001
                        tried.append({"line": line, "harness-error": repr(e)})
                        continue
                    hit = [d for d in diffs if prop in d[0]]
                    tried.append({"version": known, "line": line, "diffs": [d[1] for d in diffs][:3]})
                    if hit:
                        return {"confirmed": True, "version": known, "pre_state": _jsonable(st), "line": line, "observed": hit[0][1]}
    # bounded search over scenarios, looking for a native failure of the same property
    found = search(prop, versions, seed=0, budget=400)
    if found:
        found["confirmed"] = True
        found["note"] = "the solver's model did not replay as is; this input from the bounded scope fails the same property natively"
        return found
    return {"confirmed": False, "tried": tried[:6]}


def _jsonable(st):
    return {"nodes": st["nodes"], "pending": {str(k): v for k, v in st["pending"].items()}, "outstanding": st["outstanding"]}


def alphabet(version):
    v2 = version is not None and version >= "2.0"
    lines = []
    for n in (0, 1, 2):
        lines += [f"{n};255;0;0;17;{version or '2.2.0'}", f"{n};255;0;0;17;garbage", f"{n};1;0;0;6;temp", f"{n};255;3;0;0;55", f"{n};255;3;0;0;abc",
                  f"{n};255;3;0;0;150", f"{n};1;1;0;0;20.5", f"{n};1;1;0;2;a;b", f"{n};1;2;0;0;", f"{n};3;1;0;0;1", f"{n};255;3;0;11;sketch",
                  f"{n};255;3;0;12;1.0", f"{n};255;3;0;6;", f"{n};255;3;0;22;123", f"{n};255;3;0;22;xyz", f"{n};255;3;0;32;", f"{n};255;3;0;21;",
                  f"{n};255;4;0;0;", f"{n};255;4;0;9;", f"{n};255;3;0;99;", f"{n};255;3;0;0;nan", f"{n};255;3;0;0;-inf", f"{n};255;3;0;0;1e999",
                  f"{n};255;3;0;0;100.4", f"{n};255;3;0;0;-0.4", f"{n};255;3;0;0; 55", f"{n};255;3;0;0;5_5", f"{n};255;3;0;0;", f"{n};255;3;0;22;-7",
                  f"{n};2;0;0;14;heater", f"{n};2;1;0;22;1", f"{n};4;0;0;23;custom", f"{n};4;1;0;0;7", f"{n};4;1;0;24;v", f"{n};2;1;0;21;Off"]
    lines += ["0;255;3;0;2;2", "0;255;0;0;18;2", "0;255;3;0;2;latest", "0;255;3;0;2;2.x", "0;255;3;0;2;1", "0;255;0;0;18;dev", "0;255;3;0;2;2.2-beta",
              "0;255;3;0;2;v2.1", "0;255;3;0;2;2.", "0;255;3;0;2;.2", "0;255;3;0;15;", "0;255;3;0;16;", "1;255;3;0;17;abc", "0;255;3;0;2;1.5.0", "0;255;3;0;2;1.4.1", "1;255;3;0;abc;57", "0;255;3;0;;2.2", "1;1;1;0;x;1", "1;255;3;0;3.0;", "1;255;4;0;zz;",
              "255;255;3;0;3;", "0;255;3;0;14;ready", "0;255;3;0;9;log", "0;255;3;0;2;2.2.0", "0;255;3;0;2;2.0.0", "0;255;3;0;2;1.5.1", "0;255;3;0;2;garbage",
              "0;255;3;0;2;", "1;2", "", "x;1;1;0;0;1", "1;1;1;0;0", "256;1;1;0;0;1", "1;255;1;0;0;1", "1;1;3;0;0;1", "1;1;3;0;3;"]
    return lines


def scripted(ver):
    """Multi-step histories that single-message tests never reach (re-presentation, wake after re-presentation, req while sleeping...)."""
    v = ver or "1.4"
    wake = "1;255;3;0;32;" if v >= "2.2" else "1;255;3;0;22;5"
    pres = [("recv", f"0;255;0;0;18;{v}"), ("recv", f"1;255;0;0;17;{v}"), ("recv", "1;1;0;0;6;temp"), ("recv", "1;1;1;0;0;20.5")]
    return [
        pres + [("recv", f"1;255;0;0;17;{v}"), ("recv", "1;1;1;0;0;21")],
        pres + [("recv", "1;1;0;0;6;temp again"), ("recv", "1;1;2;0;0;")],
        pres + [("recv", wake), ("send", 1, 1, 1, 0, 2, "1", True), ("send", 1, 1, 1, 0, 2, "0", True), ("recv", f"1;255;0;0;17;{v}"), ("recv", "1;1;0;0;6;t"),
                ("recv", wake), ("recv", wake)],
        pres + [("recv", wake), ("recv", "1;1;2;0;0;"), ("recv", wake)],
        # a heartbeat response between parking and the wake signal: the wake signal itself up to 2.1, no wake from 2.2 on
        pres + [("recv", wake), ("send", 1, 1, 1, 0, 2, "1", True), ("recv", "1;255;3;0;22;5"), ("recv", wake)],
        pres + [("recv", "1;255;3;0;22;5"), ("send", 1, 1, 1, 0, 2, "1", True), ("recv", "1;255;3;0;22;6")],
        pres + [("recv", wake), ("send", 1, 1, 1, 0, 2, "1", True), ("send", 1, 1, 2, 0, 2, "", True), ("recv", wake)],
        [("recv", "5;1;1;0;0;1"), ("recv", "5;255;3;0;0;50"), ("recv", "5;255;0;0;17;x"), ("recv", "5;9;1;0;0;1"), ("recv", "5;9;2;0;0;")],
        [("recv", "255;255;3;0;3;"), ("recv", "255;255;3;0;3;"), ("recv", "2;255;3;0;6;"), ("recv", "2;255;3;0;1;")],
        pres + [("fail",), ("recv", "7;1;1;0;0;1"), ("recv", "7;1;1;0;0;1"), ("recv", "7;255;3;0;0;5")],
        pres + [("recv", "1;9;1;0;0;1"), ("recv", wake), ("recv", "1;9;1;0;0;1"), ("recv", "1;9;2;0;0;")],
        pres + [("recv", "1;9;1;0;0;1"), ("recv", f"1;255;0;0;17;{v}"), ("recv", "1;1;1;0;0;3"), ("recv", "1;9;1;0;0;1")],
        pres + [("recv", wake), ("send", 1, 1, 1, 0, 0, "25", True), ("recv", "1;1;2;0;0;"), ("recv", wake), ("recv", wake)],
        [("recv", "0;255;3;0;2;"), ("recv", "0;255;3;0;2;abc"), ("recv", "3;255;3;0;2;n/a"), ("recv", "0;255;3;0;2;2.3.2"), ("recv", "0;255;3;0;9;log")],
        [("recv", f"0;255;0;0;18;{v}"), ("recv", "0;255;3;0;2;2.0.0"), ("recv", f"0;255;0;0;18;{v}"), ("recv", "0;255;3;0;32;")],
        # version reports that a version library may accept although they have no minor section, or a modifier
        [("recv", "0;255;3;0;2;2"), ("recv", "0;255;0;0;18;2"), ("recv", "0;255;3;0;2;latest"), ("recv", "0;255;3;0;2;1"), ("recv", "0;255;3;0;2;2.2-beta"),
         ("recv", "0;255;3;0;2;v2.1"), ("recv", "0;255;0;0;18;dev"), ("recv", "0;255;3;0;9;log")],
        # an outstanding presentation request survives everything but that node's own presentation (gateway restarts, version replies, other nodes)
        [("recv", "5;1;1;0;0;1"), ("recv", f"0;255;0;0;18;{v}"), ("recv", "5;1;1;0;0;1"), ("recv", f"0;255;3;0;2;{v}"), ("recv", "5;1;1;0;0;1"),
         ("recv", "7;1;1;0;0;1"), ("recv", "5;255;0;0;17;x"), ("recv", "5;1;1;0;0;1"), ("recv", "5;1;1;0;0;1"), ("recv", "7;1;2;0;0;")],
        # a node that restarts (presents again, so it is not known to be sleeping any more) between two sends for one key
        pres + [("recv", wake), ("send", 1, 1, 1, 0, 0, "1", True), ("recv", f"1;255;0;0;17;{v}"), ("recv", "1;1;0;0;6;temp"),
                ("send", 1, 1, 1, 0, 0, "0", True), ("recv", wake), ("recv", wake)],
        # version switches, types that exist only from 1.5 on (the active table must gate them at every moment, whatever was seen before)
        [("recv", "0;255;3;0;2;1.5.0"), ("recv", "0;255;3;0;16;"), ("recv", "0;255;3;0;15;"), ("recv", "0;255;3;0;2;1.4.1"), ("recv", "0;255;3;0;16;"),
         ("recv", "0;255;3;0;15;"), ("recv", "0;255;3;0;2;2.2.0"), ("recv", "1;255;3;0;32;"), ("recv", "0;255;3;0;2;2.0.0"), ("recv", "1;255;3;0;32;")],
        [("recv", "0;255;3;0;16;"), ("recv", "0;255;3;0;17;n"), ("recv", "1;255;3;0;22;5"), ("recv", "1;255;3;0;32;")],
        pres + [("recv", "1;255;3;0;0;nan"), ("recv", "1;255;3;0;0;NaN"), ("recv", "1;255;3;0;0;inf"), ("recv", "1;255;3;0;0;1e999"), ("recv", "1;255;3;0;0;100.4"),
                ("recv", "1;255;3;0;0;-0.4"), ("recv", "1;255;3;0;0;55")],
        pres + [("recv", "1;2;0;0;14;heater"), ("recv", "1;2;1;0;22;1"), ("recv", "1;2;1;0;21;Off"), ("recv", "1;4;0;0;23;custom"), ("recv", "1;4;1;0;0;7"),
                ("recv", "1;4;1;0;24;v"), ("recv", "1;2;2;0;22;"), ("recv", "1;4;2;0;0;")],
        # stream and internal messages that share a type number (0 firmware config request / battery report, 2 firmware request /
        # version report, 3 firmware response / id request), from a known node, in both orders: which handler a number selects
        # depends on the command it came with, whatever was seen before (seed C04h: a lookup cache keyed by the IntEnum member)
        pres + [("recv", "1;255;4;0;0;"), ("recv", "1;255;3;0;0;55"), ("recv", "1;255;4;0;3;"), ("recv", "255;255;3;0;3;"), ("recv", "1;255;4;0;2;"),
                ("recv", "1;255;3;0;11;sketch"), ("recv", "1;255;4;0;1;"), ("recv", "1;255;3;0;12;1.0"), ("recv", "1;255;4;0;0;"), ("recv", "1;255;3;0;0;87")],
    ]


def search(prop, versions, seed=0, budget=300):
    rng = random.Random(seed)
    for ver in versions:
        for known in ([ver] if ver != "1.4" else [None, "1.4"]):
            for steps in scripted(known):
                try:
                    diffs = rm.run_history(known, steps)
                except Exception as e:  # noqa: BLE001
                    return {"version": known, "history": steps, "observed": f"harness error {e!r}"}
                hit = [d for d in diffs if prop in d[0]]
                if hit:
                    return {"version": known, "history": steps, "observed": hit[0][1]}
    # registries restored from persistence: a node of any version may come back flagged as sleeping (C07's quantifier names 1.x)
    for ver in versions:
        for nodever in ("1.4", "1.5.1", "2.0.0", "2.2.0"):
            state = {"nodes": {1: {"ver": nodever, "sleeping": True, "children": {1: {"type": 6}}}, 2: {"ver": nodever, "sleeping": False, "children": {1: {"type": 6}}}}}
            steps = [("send", 1, 1, 1, 0, 0, "5", True), ("send", 2, 1, 1, 0, 0, "6", True), ("recv", "1;1;1;0;0;7"), ("send", 1, 1, 1, 0, 0, "8", True),
                     ("send", 1, 1, 1, 0, 0, "9", False)]
            try:
                diffs = rm.run_history(ver, steps, state=state)
            except Exception as e:  # noqa: BLE001
                return {"version": ver, "pre_state": _jsonable(state), "history": steps, "observed": f"harness error {e!r}"}
            hit = [d for d in diffs if prop in d[0]]
            if hit:
                return {"version": ver, "pre_state": _jsonable({"nodes": state["nodes"], "pending": {}, "outstanding": []}), "history": steps, "observed": hit[0][1]}
    for ver in versions:
        for known in ([ver] if ver != "1.4" else [None, "1.4"]):
            al = alphabet(known)
            for _ in range(budget // max(1, len(versions))):
                steps = []
                for _ in range(rng.randint(1, 7)):
                    if prop in ("C08", "C10", "C11", "C06") and rng.random() < 0.12:
                        steps.append(("fail",))
                    if rng.random() < 0.2:
                        n_ = rng.choice((0, 1, 2))
                        msg = rng.choice([(n_, 1, 1, 0, 2, "1"), (n_, 1, 1, 0, 0, "20"), (n_, 255, 3, 0, 13, ""), (n_, 255, 3, 0, 19, ""),
                                          (n_, 1, 2, 0, 2, ""), (n_, 255, 0, 0, 17, "2.2"), (n_, 255, 4, 0, 0, "x")])
                        steps.append(("send",) + msg + (rng.random() < 0.8,))
                    else:
                        steps.append(("recv", rng.choice(al)))
                try:
                    diffs = rm.run_history(known, steps)
                except Exception as e:  # noqa: BLE001
                    return {"version": known, "history": steps, "observed": f"harness error {e!r}"}
                hit = [d for d in diffs if prop in d[0]]
                if hit:
                    return {"version": known, "history": steps, "observed": hit[0][1]}
    return None


def bounded(prop, tier, seed, rep):
    budget = 250 if tier == "quick" else 4000
    found = search(prop, VERS, seed=seed, budget=budget)
    return {"label": "bounded", "scope": f"{budget} random histories of <= 7 steps over the alphabet in props/handlers_native.py, 5 versions",
            "evaluations": budget, "native_failure": found}
