"""Helpers shared by the property modules."""
from pyvc.runner import Unit

PROTO = "aiomysensors.model.protocol."
VERSIONS = ["protocol_14", "protocol_15", "protocol_20", "protocol_21", "protocol_22"]
VTAG = {"protocol_14": "14", "protocol_15": "15", "protocol_20": "20", "protocol_21": "21", "protocol_22": "22"}

BASE_TRUSTED = [
    "pyvc (the VC generator / symbolic interpreter written for this task) and z3 5.1.0 / cvc5 1.0.3",
    "A-TYPES: values inhabit the annotated types of /verif/contracts/types.py",
    "A-CLOSED: handler classes are not subclassed; Transport implementations raise only TransportError-derived errors",
    "A-TRANSPORT: a write that returns appended exactly its line to the outgoing stream; a write that raises wrote nothing",
    "A-ENUM: IntEnum call/name/iteration semantics",
]


def incoming_cls(world, v):
    return world.modules[PROTO + v].ns["IncomingMessageHandler"]


def outgoing_cls(world, v):
    return world.modules[PROTO + v].ns["OutgoingMessageHandler"]


def resolve(world, cls, name):
    """The function object `cls.name` resolves to (through the MRO and classmethod binding)."""
    from pyvc.core import ClassMethodVal, FuncVal
    a, owner = cls.lookup(name)
    if isinstance(a, ClassMethodVal):
        a = a.func
    return a if isinstance(a, FuncVal) else None


def register_base(world):
    from contracts import base_c
    base_c.register(world)
