"""C12 - send never silently discards a message."""
from . import gateway_units as gu, handlers_native as hn, handlers_common as hc

PROP = "C12"
MIN_OBLIGATIONS = 50
TRUSTED = hc.HANDLER_TRUSTED + ["A-MM: Schema.dump as modelled in pyvc/mmalgo.py"]
ASSUMPTIONS = ["message is a Message whose command is 0..4 (what the codec accepts), or an object without message attributes",
               "ghost counter wcnt[m] is incremented by a sidecar ghost statement after Transport.write returns in the outgoing handlers",
               "'handed to the transport at the next wake' is the flush contract of C07 applied to the parked entry"]
EXPLANATION = ("Gateway.send is executed per protocol version against the trichotomy contract (written / parked for a sleeping "
               "destination / library error) with the outgoing handlers replaced by their contracts, which are proved on their bodies.")


def build(world):
    return gu.send_units(world)


def replay(world, ob):
    r = hn.replay(PROP, world, ob)
    if r.get("confirmed"):
        return r
    found = hn.search(PROP, hn.VERS, seed=3, budget=1500)
    return dict(found, confirmed=True) if found else r


def bounded(world, tier, seed, rep):
    return hn.bounded(PROP, tier, seed, rep)


def bounded_search(world, unit_name):
    found = hn.search(PROP, hn.VERS, seed=0, budget=1500)
    return [dict(found, clause="C12/native-differential")] if found else []


def rebuild_inlined(world, failing_helpers):
    """Stale helper clauses: re-prove with the bodies of the functions whose helper clauses failed inlined into their callers."""
    bad = {h["unit"].split("[")[0] for h in failing_helpers}
    units = build(world)
    for u in units:
        u.no_contract_for = tuple(set(u.no_contract_for) | bad)
    return units
