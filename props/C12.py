"""C12 - send never silently discards a message."""
from . import gateway_units as gu, handlers_native as hn, handlers_common as hc

PROP = "C12"
MIN_OBLIGATIONS = 50
TRUSTED = hc.HANDLER_TRUSTED + ["A-MM: Schema.dump as modelled in pyvc/mmalgo.py"]
ASSUMPTIONS = ["message is a Message whose command is 0..4 (what the codec accepts), or an object without message attributes",
               "ghost counter wcnt[m] is incremented by a sidecar ghost statement after Transport.write returns in the outgoing handlers",
               "'handed to the transport at the next wake' is the release contract (contracts/handlers_c.py, clauses each-released-once and "
               "unwritten-stay, which carry C12's id) proved on the release loop of 2.0-2.2; that every wake message reaches the release is C07's"]
EXPLANATION = ("Gateway.send is executed per protocol version against the trichotomy contract (written / parked for a sleeping "
               "destination / library error) with the outgoing handlers replaced by their contracts, which are proved on their bodies; "
               "the release of held commands at a wake is proved against the clauses that say every held command is written once or stays held.")


def build(world):
    # the three ways a send may end: Gateway.send and the outgoing handlers (written / parked / library error), and - for a parked
    # message - the release at the destination's next wake (the clauses of the release contract whose ids name C12)
    units = gu.send_units(world)
    have = {u.name for u in units}
    return units + [u for u in hc.build_for(world, PROP) if u.name not in have]


def held_messages(tier="quick"):
    """'held ... and handed to the transport at that node's next wake', bounded: C08's fault enumeration, read for held messages
    that are neither written nor still held."""
    from . import C08
    return C08.fault_scenarios(tier=tier, prop=PROP)


def held_during_release():
    """'every gateway state' includes the one in which a release is under way: a send that parks while the listener is suspended
    in a write of the release is held like any other and goes out at the next wake (bounded: C09's schedules, read for C12 -
    after the second wake the last value sent for every key has been written)."""
    from . import C09
    return C09.native_sweep()


def replay(world, ob):
    r = hn.replay(PROP, world, ob)
    if r.get("confirmed"):
        return r
    if "_handle_sleep_buffer" in ob.get("unit", "") or "handle_set" in ob.get("unit", ""):
        f, n = held_messages("thorough")
        if not f:
            f, n = held_during_release()
        if f:
            return dict(f, confirmed=True, native_runs=n)
    found = hn.search(PROP, hn.VERS, seed=3, budget=1500)
    return dict(found, confirmed=True) if found else r


def bounded(world, tier, seed, rep):
    r = hn.bounded(PROP, tier, seed, rep)
    f, n = held_messages(tier)
    r["evaluations"] += n
    r["scope"] += "; plus every subset (size <= 2) of failing write attempts over 1-4 held commands for two nodes and four wakes, versions 2.0-2.2"
    f2, n2 = held_during_release()
    r["evaluations"] += n2
    r["scope"] += "; plus 14 schedules per 2.x version in which a send parks while the release is suspended in a write, then a second wake"
    r["native_failure"] = r.get("native_failure") or f or f2
    return r


def bounded_search(world, unit_name):
    if "_handle_sleep_buffer" in unit_name:
        f, n = held_messages("thorough")
        if f:
            return [dict(f, clause="C12/native-fault-enumeration")]
    if "_handle_sleep_buffer" in unit_name or "handle_set" in unit_name:
        f, n = held_during_release()
        if f:
            return [dict(f, clause="C12/native-held-during-release")]
    found = hn.search(PROP, hn.VERS, seed=0, budget=1500)
    return [dict(found, clause="C12/native-differential")] if found else []


def rebuild_inlined(world, failing_helpers):
    """Stale helper clauses: re-prove with the bodies of the functions whose helper clauses failed inlined into their callers."""
    bad = {h["unit"].split("[")[0] for h in failing_helpers}
    units = build(world)
    for u in units:
        u.no_contract_for = tuple(set(u.no_contract_for) | bad)
    return units
