"""C13 - persistence round trip: load reads back every registry that save can write."""
import json
import os
import random
import tempfile

from pyvc import native
from contracts import c13_c, persistence_c
from . import gateway_units as gu, handlers_common as hc
from .common import BASE_TRUSTED

PROP = "C13"
ASSUMPTION_CHECKS = ['A-MM', 'A-JSON']
MIN_OBLIGATIONS = 40
TRUSTED = BASE_TRUSTED + [
    "A-MM: field-wise load(dump(v)) == v for fields.Int / Str / Bool / Dict(keys=Int) / Nested on values inside their accept domain (marshmallow 3.26)",
    "A-JSON: json.loads(json.dumps(x, sort_keys=True, indent=2)) == x with int dict keys turned into their decimal strings, which fields.Int parses back",
    "A-FS (see C14/C15)",
]
ASSUMPTIONS = [
    "the end-to-end equality load(save(R)) == R is the composition of: save serialises every node (C13/save-dumps-every-node), every named attribute is a "
    "schema field and a constructor parameter stored under the same name (C13/every-*-attribute-restored, C13/field-declared), the reach domain of "
    "every validated field is inside its accept domain (C13/accept[...], C13/battery-in-schema-range), and the two assumed library round trips above; "
    "the composition itself is validated only by the bounded native round trip in this check (never counted as proved)",
]
EXPLANATION = ("The parts of the round trip that are repository code (save loop, constructors via make_node/make_child, legacy hooks, the battery handler's "
               "range, the schema declarations) are under contract; marshmallow's and json's own field round trips are assumed and cross-checked natively.")


def build(world):
    gu.prepare(world)
    units = gu.mk(c13_c.units(world))
    units += [u for u in gu.mk(persistence_c.c16_units(world)) if u.name.endswith("Persistence.save")]
    units += hc.build_for(world, PROP)
    units += [u for u in gu.model_units(world) if "Node.__init__" in u.name or "Child.__init__" in u.name]
    units += [u for u in gu.mk(persistence_c.units(world)) if "NodeSchema" in u.name]
    # "every registry the library can build": the handlers that put nodes and children into the registry keep its keys inside what the
    # schema accepts on load (node id 0..255 = WF's key clause): their wf/ exit obligations belong to this property too
    have = {u.name for u in units}
    from pyvc.runner import Unit
    for name, q, ct, cls, case in hc.all_units(world):
        if ("handle_i_id_request" in q or "handle_presentation.__wrapped__" in q) and name not in have:
            units.append(Unit(name, q, ct, receiver=cls, case=case))
            _BUILDERS.add(name)
    return units


_BUILDERS = set()
ALSO_PROPERTY = ("wf",)


def owns(ob_):
    if ob_["name"].split("/")[0] == "wf":
        return ob_["name"].startswith("wf/dict[int,Node]") and ("handle_i_id_request" in ob_.get("unit", "") or "handle_presentation" in ob_.get("unit", ""))
    return True


def extra_checks(world):
    return c13_c.accept_obligations(world)


def native_roundtrip(seed=0, n_hist=40):
    """Bounded stand-in: registries reached through real messages (boundary payloads included), saved and loaded through real files."""
    native.import_repo()
    from aiomysensors.persistence import Persistence
    from . import refmodel as rm
    rng = random.Random(seed)
    lines = ["1;255;0;0;17;2.2", "1;1;0;0;6;", "1;1;1;0;0;20.5", "1;255;3;0;0;150", "1;255;3;0;0;-3", "1;255;3;0;0;100", "1;255;3;0;0;0", "1;255;3;0;11;é sketch",
             "1;255;3;0;12;", "2;255;0;0;-5;v", "2;254;0;0;99999999999;d;e", "2;254;1;0;-7;x", "1;255;3;0;22;123", "1;255;3;0;22;-5", "2;255;3;0;22;-1", "255;255;3;0;3;", "0;255;0;0;18;2.2.0", "1;255;3;0;32;",
             "1;1;1;0;47;", "1;1;1;0;24;0", "1;2;0;0;0;", "1;2;1;0;16;", "1;255;3;0;11;", "1;255;0;0;17;", "1;1;1;0;47; pad",
             # nothing on the receive path limits the length of what is stored (TCP and MQTT carry more than a radio frame)
             "1;255;3;0;11;A sketch name that is longer than one radio frame", "1;255;3;0;12;1.0.0-beta.12345678901234567890",
             "1;1;0;0;6;a child description longer than twenty-five characters", "1;1;1;0;47;" + "text " * 60, "1;255;0;0;17;2.2.0-" + "x" * 40]
    d = tempfile.mkdtemp(prefix="c13_")
    n = 0
    try:
        edge = [["1;255;0;0;17;2.2", "1;1;0;0;36;info", "1;1;1;0;47;", "1;1;1;0;24;hello", "1;2;0;0;6;", "1;2;1;0;0;"], ["255;255;0;0;17;1.4", "255;255;3;0;3;", "255;255;3;0;3;"], ["254;255;0;0;17;2.2", "255;255;3;0;3;"], ["7;255;0;0;0;2.2.0", "7;1;0;0;0;d"],
                ["0;255;0;0;18;2.2", "255;255;3;0;3;", "1;255;0;0;17;", "1;255;3;0;11;", "253;255;0;0;17;x", "255;255;3;0;3;", "255;255;3;0;3;"],
                ["1;255;0;0;17;2.2", "1;255;3;0;11;A sketch name that is longer than one radio frame", "1;255;3;0;12;1.0.0-beta.12345678901234567890",
                 "1;1;0;0;6;a child description longer than twenty-five characters", "1;1;1;0;47;" + "text " * 60]]
        for h in range(n_hist + len(edge)):
            gw, tr = native.make_gateway("2.2", ())
            for line in (edge[h - n_hist] if h >= n_hist else [rng.choice(lines) for _ in range(rng.randint(1, 10))]):
                tr.reads.append(line)
                try:
                    native.run(gw.listen().__anext__())
                except Exception:  # noqa: BLE001
                    pass
            path = os.path.join(d, f"r{h}.json")
            saver = Persistence(gw.nodes, path)
            native.run(saver.save())
            back = {}
            n += 1
            try:
                native.run(Persistence(back, path).load())
            except Exception as e:  # noqa: BLE001
                return {"history_registry": str(rm.real_view(gw))[:300], "observed": f"load of the saved file raised {type(e).__name__}: {e}"[:300]}, n

            class G:
                nodes = back
            if rm.real_view(G) != rm.real_view(gw):
                return {"saved": str(rm.real_view(gw))[:300], "loaded": str(rm.real_view(G))[:300], "observed": "registry differs after save/load"}, n
            # the object that saved is the one that loads after a reconnect: the same Persistence reads its own file back, twice
            want = rm.real_view(gw)
            for k in range(2):
                gw.nodes.clear()
                n += 1
                try:
                    native.run(saver.load())
                except Exception as e:  # noqa: BLE001
                    return {"history_registry": str(want)[:300], "observed": f"load #{k + 1} by the Persistence object that saved the file raised {type(e).__name__}: {e}"[:300]}, n
                if rm.real_view(gw) != want:
                    return {"saved": str(want)[:300], "loaded": str(rm.real_view(gw))[:300], "observed": f"registry differs after load #{k + 1} by the Persistence object that saved the file"}, n
        legacy = {"1": {"sensor_id": 1, "type": 17, "protocol_version": "2.2", "sketch_name": None, "sketch_version": None, "battery_level": 5, "heartbeat": 0,
                        "children": {"3": {"id": 3, "type": 6, "description": "d", "values": {"0": "20"}}}}}
        nat = {"1": {"node_id": 1, "node_type": 17, "protocol_version": "2.2", "sketch_name": "", "sketch_version": "", "battery_level": 5, "heartbeat": 0,
                     "children": {"3": {"child_id": 3, "child_type": 6, "description": "d", "values": {"0": "20"}}}}}
        views = []
        for name, content in (("legacy", legacy), ("native", nat)):
            p = os.path.join(d, name + ".json")
            with open(p, "w") as f:
                json.dump(content, f)
            reg = {}
            native.run(Persistence(reg, p).load())

            class G2:
                nodes = reg
            views.append(rm.real_view(G2))
        n += 1
        if views[0] != views[1]:
            return {"observed": f"legacy layout loads to {views[0]}, native to {views[1]}"}, n
    finally:
        import shutil
        shutil.rmtree(d, ignore_errors=True)
    return None, n


def replay(world, ob):
    f, n = native_roundtrip(0, 60)
    return dict(f, confirmed=True, native_runs=n) if f else {"confirmed": False, "native_runs": n}


def bounded(world, tier, seed, rep):
    f, n = native_roundtrip(seed, 40 if tier == "quick" else 1500)
    return {"label": "bounded", "scope": "registries reached by random histories over 16 lines (battery 150/-3/100/0, non-ASCII and empty strings, negative and huge "
            "type numbers) saved and loaded through real files, by a fresh Persistence object and twice by the one that saved; one legacy-vs-native file pair", "evaluations": n, "native_failure": f}


def bounded_search(world, unit_name):
    f, n = native_roundtrip(0, 200)
    return [dict(f, clause="C13/native-roundtrip")] if f else []


def rebuild_inlined(world, failing_helpers):
    bad = {h["unit"].split("[")[0] for h in failing_helpers}
    units = build(world)
    for u in units:
        u.no_contract_for = tuple(set(u.no_contract_for) | bad)
    return units
