"""C15 - a crash during save never destroys the previously saved registry.

Crash Hoare logic on Persistence.save: besides its postcondition the function has a *crash condition* that must hold after
every file-system effect the symbolic execution of save meets (A-FS: open(path, "w") truncates at open; during a write any
proper prefix may be on disk; close completes the write).  One obligation per effect is generated from the path itself, so a
rewritten save (temp file + rename) gets its own crash points.
"""
import os
import tempfile

import z3

from pyvc import native
from pyvc.core import *  # noqa: F403
from contracts import persistence_c
from . import gateway_units as gu
from .common import BASE_TRUSTED

PROP = "C15"
MIN_OBLIGATIONS = 3
TRUSTED = BASE_TRUSTED + ["A-FS: open(path,'w') truncates path at open; a crash during write leaves any proper prefix; a completed write followed "
                          "by close leaves the full content; durability (fsync) is outside the property's wording"]
ASSUMPTIONS = ["loaded(content) is an abstract function of the file content: '' loads as the empty registry, a proper prefix of a JSON document "
               "need not be loadable, the complete document loads to the registry being saved (C13/C14)"]
EXPLANATION = __doc__

view_of = z3.Function("loaded_view", StrS, IntS)
loadable = z3.Function("loadable", StrS, BoolS)
proper_prefix = z3.Function("is_proper_prefix", StrS, StrS, BoolS)


def crash_hook(I, outcome, heap0, heap1):
    c = I.c
    disk_old = heap0.get("ghost.disk", StrS)
    vnew = z3.Int("view_being_saved")
    goals = []
    effects = getattr(c, "fs_effects", [])
    written = [d for k, d, h in effects if k in ("write-in-progress", "write-complete", "partial-write") and d is not None]
    hyps = [loadable(disk_old)]
    for s in written:
        hyps.append(z3.And(loadable(s), view_of(s) == vnew))

    def ok(content):
        return z3.Implies(z3.And(*hyps), z3.And(loadable(content), z3.Or(view_of(content) == view_of(disk_old), view_of(content) == vnew)))
    seen = {}
    if any(k == "partial-write" for k, d, h in effects):
        # a write that *fails* (OSError) is a fault, not a crash: the property quantifies over crash points of a save that is running normally
        effects = [e for e in effects if e[0] == "open-truncate"]
    for kind, detail, snap in effects:
        n = seen.get(kind, 0)
        seen[kind] = n + 1
        if kind == "open-truncate":
            goals.append((f"C15/crash@open-truncate[{n}]", "property", ok(z3.StringVal(""))))
        elif kind == "write-in-progress":
            p = c.fresh("prefix_on_disk", StrS)
            goals.append((f"C15/crash@{kind}[{n}]", "property", z3.Implies(proper_prefix(p, detail), ok(p))))
        elif kind in ("write-complete", "close"):
            goals.append((f"C15/crash@{kind}[{n}]", "property", ok(snap.get("ghost.disk", StrS))))
    if not effects and outcome == "normal":
        goals.append(("C15/save-has-file-effects", "property", z3.BoolVal(False)))
    return goals


def build(world):
    gu.prepare(world)
    persistence_c.c16_units(world)  # registers loop contracts and callee contracts
    ct = persistence_c.save_own_contract()
    ct.exit_hook = crash_hook
    return gu.mk([(persistence_c.PQ + "save[crash-points]", persistence_c.PQ + "save", ct, None, (), None)])


def native_crash():
    """Replay: save a registry, then crash a second save right after the file was opened for writing."""
    native.import_repo()
    import aiofiles.threadpool as tp
    from aiomysensors.model.node import Node
    from aiomysensors.persistence import Persistence
    d = tempfile.mkdtemp(prefix="c15_")
    try:
        path = os.path.join(d, "p.json")
        nodes = {1: Node(1, 17, "2.2")}
        p = Persistence(nodes, path)
        native.run(p.save())
        nodes[2] = Node(2, 17, "2.2")

        class Crash(BaseException):
            pass
        orig = tp.sync_open

        def crashing_open(*a, **k):
            f = orig(*a, **k)
            f.close()
            raise Crash()
        tp.sync_open = crashing_open
        try:
            try:
                native.run(p.save())
            except Crash:
                pass
        finally:
            tp.sync_open = orig
        after = {}
        try:
            native.run(Persistence(after, path).load())
        except Exception as e:  # noqa: BLE001
            return {"crash_point": "after open(path, 'w')", "observed": f"file unreadable: {type(e).__name__}"}
        if sorted(after) not in ([1], [1, 2]):
            return {"crash_point": "after open(path, 'w')", "observed": f"file loads to registry {sorted(after)}; last saved [1], being saved [1, 2]"}
        return None
    finally:
        import shutil
        shutil.rmtree(d, ignore_errors=True)


def replay(world, ob):
    f = native_crash()
    return dict(f, confirmed=True) if f else {"confirmed": False}


def bounded(world, tier, seed, rep):
    f = native_crash()
    # the native crash replay reproduces the recorded finding; it is reported through the obligations, not as an engine disagreement
    return {"label": "bounded", "scope": "one crash point (right after open for writing) on a real file", "evaluations": 1, "native_failure_recorded": f}


def bounded_search(world, unit_name):
    f = native_crash()
    return [dict(f, clause="C15/crash@open-truncate[0]")] if f else []
