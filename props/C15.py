"""C15 - a crash during save never destroys the previously saved registry.

Crash Hoare logic on Persistence.save: besides its postcondition the function has a *crash condition* that must hold after
every file-system effect the symbolic execution of save meets (A-FS: open(path, "w") truncates at open; during a write any
proper prefix may be on disk; close completes the write).  One obligation per effect is generated from the path itself, so a
rewritten save (temp file + rename) gets its own crash points.
"""
import os
import tempfile

import z3

from pyvc import native
from pyvc.core import *  # noqa: F403
from contracts import persistence_c
from . import gateway_units as gu
from .common import BASE_TRUSTED

PROP = "C15"
MIN_OBLIGATIONS = 3
TRUSTED = BASE_TRUSTED + ["A-FS: open(path,'w') truncates path at open; a crash during write leaves any proper prefix; a completed write followed "
                          "by close leaves the full content; durability (fsync) is outside the property's wording"]
ASSUMPTIONS = ["loaded(content) is an abstract function of the file content: '' loads as the empty registry, a proper prefix of a JSON document "
               "need not be loadable, the complete document loads to the registry being saved (C13/C14)"]
EXPLANATION = __doc__

view_of = z3.Function("loaded_view", StrS, IntS)
loadable = z3.Function("loadable", StrS, BoolS)
proper_prefix = z3.Function("is_proper_prefix", StrS, StrS, BoolS)


def crash_hook(I, outcome, heap0, heap1):
    c = I.c
    # what a restart would have found before this save: a missing file counts as the empty registry (C14 creates it)
    disk_old = z3.If(heap0.get("ghost.file_exists", BoolS), heap0.get("ghost.disk", StrS), z3.StringVal(""))
    vnew = z3.Int("view_being_saved")
    goals = []
    effects = getattr(c, "fs_effects", [])
    written = [d for k, d, h in effects if k in ("write-in-progress", "write-complete", "partial-write", "write-other-complete", "write-other-in-progress") and d is not None]
    hyps = [loadable(disk_old)]
    for s in written:
        hyps.append(z3.And(loadable(s), view_of(s) == vnew))

    def ok(content):
        return z3.Implies(z3.And(*hyps), z3.And(loadable(content), z3.Or(view_of(content) == view_of(disk_old), view_of(content) == vnew)))
    seen = {}
    if any(k in ("partial-write", "partial-write-other") for k, d, h in effects):
        # a write that *fails* (OSError) is a fault, not a crash: the property quantifies over crash points of a save that is running normally
        cut = [i for i, e in enumerate(effects) if e[0].startswith("partial-write")][0]
        effects = effects[:cut]
    for kind, detail, snap in effects:
        n = seen.get(kind, 0)
        seen[kind] = n + 1
        exists = snap.get("ghost.file_exists", BoolS)
        disk = snap.get("ghost.disk", StrS)
        # what a restart finds: a missing file is created empty (C14) = loads as the empty registry, like an empty file
        found = z3.If(exists, disk, z3.StringVal(""))
        if kind == "write-in-progress":
            p = c.fresh("prefix_on_disk", StrS)
            goals.append((f"C15/crash@{kind}[{n}]", "property", z3.Implies(proper_prefix(p, detail), ok(p))))
        else:
            goals.append((f"C15/crash@{kind}[{n}]", "property", ok(found)))
    if not effects and outcome == "normal":
        goals.append(("C15/save-has-file-effects", "property", z3.BoolVal(False)))
    return goals


def build(world):
    gu.prepare(world)
    persistence_c.c16_units(world)  # registers loop contracts and callee contracts
    ct = persistence_c.save_own_contract()
    ct.exit_hook = crash_hook
    return gu.mk([(persistence_c.PQ + "save[crash-points]", persistence_c.PQ + "save", ct, None, (), None)])


def native_crash(only_new=False):
    """Replay / bounded stand-in: save registry {1}, then crash a save of {1, 2} before every file-system operation it performs and
    right after every open-for-writing; after each crash the file must load to {1} or {1, 2}.  Returns the failing crash points."""
    native.import_repo()
    import aiofiles.os as aos
    import aiofiles.threadpool as tp
    import os as _os
    from aiomysensors.model.node import Node
    from aiomysensors.persistence import Persistence

    class Crash(BaseException):
        pass
    fails = []
    base = tempfile.mkdtemp(prefix="c15_")
    state = {"n": 0, "crash_at": None, "ops": []}
    orig = {"sync_open": tp.sync_open}
    for nm in ("replace", "rename", "remove", "unlink"):
        orig["aos." + nm] = getattr(aos, nm)
        orig["os." + nm] = getattr(_os, nm)

    def point(desc):
        i = state["n"]
        state["n"] += 1
        state["ops"].append(desc)
        if state["crash_at"] == i:
            raise Crash()

    def w_open(*a, **k):
        mode = k.get("mode", a[1] if len(a) > 1 else "r")
        if any(ch in mode for ch in "wax+"):
            point(f"before open({_os.path.basename(str(a[0]))}, {mode!r})")
            f = orig["sync_open"](*a, **k)
            try:
                point(f"after open({_os.path.basename(str(a[0]))}, {mode!r})")
            except Crash:
                f.close()
                raise
            return f
        return orig["sync_open"](*a, **k)

    def w_os(nm):
        def f(*a, **k):
            point(f"before os.{nm}({', '.join(_os.path.basename(str(x)) for x in a)})")
            return orig["os." + nm](*a, **k)
        return f

    def w_aos(nm):
        async def f(*a, **k):
            point(f"before aiofiles.os.{nm}({', '.join(_os.path.basename(str(x)) for x in a)})")
            return await orig["aos." + nm](*a, **k)
        return f

    def patch(on):
        tp.sync_open = w_open if on else orig["sync_open"]
        for nm in ("replace", "rename", "remove", "unlink"):
            setattr(aos, nm, w_aos(nm) if on else orig["aos." + nm])
            setattr(_os, nm, w_os(nm) if on else orig["os." + nm])

    def scenario(crash_at):
        d = tempfile.mkdtemp(dir=base)
        path = _os.path.join(d, "p.json")
        nodes = {1: Node(1, 17, "2.2")}
        p = Persistence(nodes, path)
        native.run(p.save())
        nodes[2] = Node(2, 17, "2.2")
        state.update(n=0, crash_at=crash_at, ops=[])
        patch(True)
        try:
            try:
                native.run(p.save())
            except Crash:
                pass
        finally:
            patch(False)
        if crash_at is None:
            return None
        after = {}
        try:
            native.run(Persistence(after, path).load())
        except Exception as e:  # noqa: BLE001
            return f"file unreadable: {type(e).__name__}"
        if sorted(after) not in ([1], [1, 2]):
            return f"file loads to registry {sorted(after)}; last saved [1], being saved [1, 2]; directory: {sorted(_os.listdir(d))}"
        return None
    try:
        scenario(None)
        ops = list(state["ops"])
        for i, desc in enumerate(ops):
            r = scenario(i)
            if r:
                known = desc.startswith("after open(p.json, 'w')")
                if not (only_new and known):
                    fails.append({"crash_point": desc, "observed": r, "known_window": known,
                                  "clause": "C15/crash@open-truncate[0]" if known else f"C15/native-crash@{desc}"})
    finally:
        patch(False)
        import shutil
        shutil.rmtree(base, ignore_errors=True)
    return fails


def replay(world, ob):
    fails = native_crash()
    want_known = ob["name"] in ("C15/crash@open-truncate[0]", "C15/crash@write-in-progress[0]")
    for f in fails:
        if f["known_window"] == want_known:
            return dict(f, confirmed=True)
    return {"confirmed": False, "native_crash_points_failing": fails}


def bounded(world, tier, seed, rep):
    fails = native_crash()
    new = [f for f in fails if not f["known_window"]]
    # the known truncate window is reported through the obligations (known finding); any *other* failing crash point must have been reported by the prover
    return {"label": "bounded", "scope": "a crash before every file-system operation of one save and right after every open-for-writing, on real files",
            "evaluations": len(fails) + 1, "native_failure": new[0] if new else None, "known_window_reproduced": [f for f in fails if f["known_window"]][:1]}


def bounded_search(world, unit_name):
    return native_crash()
