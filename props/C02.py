"""C02 - decoder accepts exactly the well-formed lines."""
from . import gateway_units as gu, codec_native as cn
from .common import BASE_TRUSTED

PROP = "C02"
ASSUMPTION_CHECKS = ['A-STR', 'A-MM']
MIN_OBLIGATIONS = 100
TRUSTED = BASE_TRUSTED + [
    "A-MM: marshmallow 3.26 Schema.load/dump loop as modelled in pyvc/mmalgo.py (hooks and custom fields are the repository's own code)",
    "A-STR: rstrip/split/join lemma schemas of pyvc/strings.py; str(int) is the canonical decimal without ';' or whitespace",
]
ASSUMPTIONS = ["string obligations are proved from ground lemma instances; a refutation is a candidate confirmed by native replay",
               "payload domain: rstrip(payload) == payload (no trailing whitespace / line terminator), as the property states"]
EXPLANATION = ("dump, load(dump(m)) and dump(load(line)) are executed symbolically through the marshmallow model with the real "
               "to_dict/to_string/make_message/validators inlined, for every protocol version, over an arbitrary payload string.")


def build(world):
    return gu.codec_units(world, ["load_line"]) + gu.listen_units(world)


def replay(world, ob):
    return cn.replay(PROP, world, ob)


def bounded(world, tier, seed, rep):
    return cn.bounded(PROP, tier, seed, rep)


def bounded_search(world, unit_name):
    f, n = cn.search(PROP)
    return [dict(f, clause="C02/native-decode")] if f else []


def rebuild_inlined(world, failing_helpers):
    """Stale helper clauses: re-prove with the bodies of the functions whose helper clauses failed inlined into their callers."""
    bad = {h["unit"].split("[")[0] for h in failing_helpers}
    units = build(world)
    for u in units:
        u.no_contract_for = tuple(set(u.no_contract_for) | bad)
    return units
