"""C19 - a newer protocol version handles the older protocol's message types identically.

Each version's handlers are proved against contracts derived from the *same* leaf effect specifications (the handler
units below).  The relational property is then decided on the derived specifications themselves: for every ordered
pair of versions and every (command, type) of the older one, the effect specification the newer version's dispatch
resolves to must be textually identical after removing what the property excludes (version query while the version
is unknown; missing node/child outcomes and gateway-ready across 1.x -> 2.x; heartbeat response between 2.0/2.1 and 2.2).
"""
import time

from contracts import handlers_c as hcx
from contracts.hspec import VQ_LINE
from . import handlers_common as hc, handlers_native as hn

PROP = "C19"
# C19 = "every version conforms to the shared specification" (the C04/C06/C07/C10 clauses of the handler units) + "the specifications
# the versions resolve to are equal": a conformance failure of one version is a C19 failure too
ALSO_PROPERTY = ("C04", "C06", "C07", "C10")
MIN_OBLIGATIONS = 200
TRUSTED = hc.HANDLER_TRUSTED + ["the derivation of contracts from leaf specifications (contracts/hspec.py) mirrors the decorators: "
                                "checked by proving every derived contract on the real function"]
ASSUMPTIONS = hc.HANDLER_ASSUMPTIONS + ["specification equality is syntactic (sufficient, not necessary): a false alarm is impossible "
                                        "only as long as shared handlers share their leaf specification, which the derivation guarantees"]
EXPLANATION = __doc__

MISSING = ("MissingNodeError", "MissingChildError")


def fingerprint(hs, cross_major):
    outs = []
    for o in hs.outs:
        if o.kind == "TransportError":
            continue  # fault paths are covered per version (C08, C10); the property quantifies over fault-free histories
        if cross_major and o.kind in MISSING:
            continue
        post = sorted(c.text for c in o.post if c.tag != "canary" and not c.id.startswith("C10") and not c.id.startswith("W/"))
        log = None if o.log is None else [(c, l) for c, l in o.log if l != VQ_LINE and "19" not in l.split(",")[-2:][0]]
        outs.append((o.kind, o.guard, tuple(post), None if log is None else tuple(log)))
    return sorted(outs, key=repr)


def ob(name, ok, detail, unit):
    return {"name": name, "tag": "property", "status": "unsat" if ok else "sat", "secs": 0.0, "backend": "structural",
            "unit": unit, "path": [detail], "model": None}


def extra_checks(world):
    hc.all_units(world)
    D = {v: hcx.Deriver(world, v) for v in hcx.VMODS}
    tops = {v: {cmd: f for cmd, num, f in hcx.top_level(world, v)} for v in hcx.VMODS}
    out = []
    vt = {"protocol_14": (1, 4), "protocol_15": (1, 5), "protocol_20": (2, 0), "protocol_21": (2, 1), "protocol_22": (2, 2)}
    for i, v in enumerate(hcx.VMODS):
        for w in hcx.VMODS[i + 1:]:
            cross = vt[v][0] != vt[w][0]
            pair = f"{hcx.VTAG[v]}<{hcx.VTAG[w]}"
            for cmd in ("presentation", "set", "req", "stream"):
                fv = fingerprint(D[v].spec_of(tops[v][cmd]), cross)
                fw = fingerprint(D[w].spec_of(tops[w][cmd]), cross)
                if cmd == "stream":  # gate tables are compared below; the arms are the per-type specs
                    continue
                out.append(ob(f"C19/spec-eq[{pair}]/{cmd}", fv == fw, f"{len(fv)} outcomes compared", f"handle_{cmd}"))
            for enum in ("Internal", "Stream"):
                av, aw = D[v].arm_specs(enum), D[w].arm_specs(enum)
                for val, (hname, hs) in av.items():
                    if val not in aw:
                        out.append(ob(f"C19/tables-monotone[{pair}]/{enum}", False, f"type {val} of {v} missing in {w}", enum))
                        continue
                    if enum == "Internal" and val == 22 and vt[w] == (2, 2) and vt[v] < (2, 2):
                        continue  # the stated exception: heartbeat response wakes in 2.0/2.1, pre-sleep notification in 2.2
                    if enum == "Internal" and val == 14 and cross:
                        continue  # gateway ready: excluded across 1.x -> 2.x
                    fv, fw = fingerprint(hs, cross), fingerprint(aw[val][1], cross)
                    out.append(ob(f"C19/spec-eq[{pair}]/{enum.lower()}[{val}]", fv == fw, f"{hname} vs {aw[val][0]}", f"{enum}[{val}]"))
            for enum in ("Command", "Presentation", "SetReq", "Internal", "Stream"):
                tv, tw = D[v].table(enum), D[w].table(enum)
                out.append(ob(f"C19/tables-monotone[{pair}]/{enum}", set(tv) <= set(tw), f"{len(tv)} <= {len(tw)} values", enum))
            for const in ("INTERNAL_COMMAND_TYPE", "STRICT_SYSTEM_COMMAND_TYPES", "VALID_SYSTEM_COMMAND_TYPES", "NODE_ID_REQUEST_TYPES"):
                cv, cw = D[v].mod.ns.get(const), D[w].mod.ns.get(const)
                norm = lambda x: sorted(getattr(m, "value", m) for m in x) if isinstance(x, (set, frozenset, list, tuple)) else getattr(x, "value", x)  # noqa: E731
                out.append(ob(f"C19/same-constants[{pair}]/{const}", norm(cv) == norm(cw), f"{norm(cv)} vs {norm(cw)}", const))
    return out


def build(world):
    # every version's handlers against the shared specifications
    return hc.build_for(world, "C04") 


def replay(world, ob_):
    return hn.replay("C04", world, ob_)


def bounded(world, tier, seed, rep):
    """Bounded stand-in: the same random histories under every ordered pair of versions of one major line must agree natively."""
    import random
    from . import refmodel as rm
    from pyvc import native
    rng = random.Random(seed)
    pairs = [("1.4", "1.5"), ("2.0", "2.1"), ("2.1", "2.2"), ("2.0", "2.2")]
    n, bad = 0, None
    budget = 60 if tier == "quick" else 1500
    for _ in range(budget):
        a, b = rng.choice(pairs)
        al = [l for l in hn.alphabet(a) if ";3;0;22;" not in l and ";3;0;32;" not in l and "garbage" not in l and ";3;0;2;" not in l and ";0;0;17;" not in l
              and ";3;0;1;" not in l]
        steps = [("recv", rng.choice(al)) for _ in range(rng.randint(1, 8))]
        res = []
        for v in (a, b):
            gw, tr = native.make_gateway(v, ())
            outs = []
            for st in steps:
                tr.reads.append(st[1])
                try:
                    m = native.run(gw.listen().__anext__())
                    outs.append(("yield", m.node_id, m.child_id, m.command, m.message_type, m.payload))
                except Exception as e:  # noqa: BLE001
                    outs.append(("error", type(e).__name__))
            res.append((outs, rm.real_view(gw), list(tr.writes)))
        n += 1
        if res[0] != res[1] and bad is None:
            bad = {"versions": [a, b], "history": steps, "observed": f"{res[0]} vs {res[1]}"}
    return {"label": "bounded", "scope": f"{budget} random histories (<= 8 lines, types of the older version) x version pairs of one major line",
            "evaluations": n, "native_failure": bad}


def rebuild_inlined(world, failing_helpers):
    """Stale helper clauses: re-prove with the bodies of the functions whose helper clauses failed inlined into their callers."""
    bad = {h["unit"].split("[")[0] for h in failing_helpers}
    units = build(world)
    for u in units:
        u.no_contract_for = tuple(set(u.no_contract_for) | bad)
    return units
