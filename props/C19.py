"""C19 - a newer protocol version handles the older protocol's message types identically.

Each version's handlers are proved against contracts derived from the *same* leaf effect specifications (the handler
units below).  The relational property is then decided on the derived specifications themselves: for every ordered
pair of versions and every (command, type) of the older one, the effect specification the newer version's dispatch
resolves to must be textually identical after removing what the property excludes (version query while the version
is unknown; missing node/child outcomes and gateway-ready across 1.x -> 2.x; heartbeat response between 2.0/2.1 and 2.2).
"""
import time

from contracts import handlers_c as hcx
from contracts.hspec import VQ_LINE
from pyvc import native
from pyvc.core import TInt
from . import handlers_common as hc, handlers_native as hn, refmodel as rm

PROP = "C19"
# C19 = "every version conforms to the shared specification" (the C04/C06/C07/C10 clauses of the handler units) + "the specifications
# the versions resolve to are equal": a conformance failure of one version is a C19 failure too
ALSO_PROPERTY = ("C04", "C06", "C07", "C10")
MIN_OBLIGATIONS = 200
TRUSTED = hc.HANDLER_TRUSTED + ["the derivation of contracts from leaf specifications (contracts/hspec.py) mirrors the decorators: "
                                "checked by proving every derived contract on the real function"]
ASSUMPTIONS = hc.HANDLER_ASSUMPTIONS + ["specification equality is syntactic (sufficient, not necessary): a false alarm is impossible "
                                        "only as long as shared handlers share their leaf specification, which the derivation guarantees"]
EXPLANATION = __doc__

MISSING = ("MissingNodeError", "MissingChildError")


def fingerprint(hs, cross_major):
    outs = []
    for o in hs.outs:
        if o.kind == "TransportError":
            continue  # fault paths are covered per version (C08, C10); the property quantifies over fault-free histories
        if cross_major and o.kind in MISSING:
            continue
        post = sorted(c.text for c in o.post if c.tag != "canary" and not c.id.startswith("C10") and not c.id.startswith("W/"))
        log = None if o.log is None else [(c, l) for c, l in o.log if l != VQ_LINE and "19" not in l.split(",")[-2:][0]]
        outs.append((o.kind, o.guard, tuple(post), None if log is None else tuple(log)))
    return sorted(outs, key=repr)


def ob(name, ok, detail, unit, model=None):
    return {"name": name, "tag": "property", "status": "unsat" if ok else "sat", "secs": 0.0, "backend": "structural",
            "unit": unit, "path": [detail], "model": model}


def extra_checks(world):
    hc.all_units(world)
    D = {v: hcx.Deriver(world, v) for v in hcx.VMODS}
    tops = {v: {cmd: f for cmd, num, f in hcx.top_level(world, v)} for v in hcx.VMODS}
    out = []
    vt = {"protocol_14": (1, 4), "protocol_15": (1, 5), "protocol_20": (2, 0), "protocol_21": (2, 1), "protocol_22": (2, 2)}
    for i, v in enumerate(hcx.VMODS):
        for w in hcx.VMODS[i + 1:]:
            cross = vt[v][0] != vt[w][0]
            pair = f"{hcx.VTAG[v]}<{hcx.VTAG[w]}"
            for cmd in ("presentation", "set", "req", "stream"):
                fv = fingerprint(D[v].spec_of(tops[v][cmd]), cross)
                fw = fingerprint(D[w].spec_of(tops[w][cmd]), cross)
                if cmd == "stream":  # gate tables are compared below; the arms are the per-type specs
                    continue
                out.append(ob(f"C19/spec-eq[{pair}]/{cmd}", fv == fw, f"{len(fv)} outcomes compared", f"handle_{cmd}"))
            for enum in ("Internal", "Stream"):
                av, aw = D[v].arm_specs(enum), D[w].arm_specs(enum)
                for val, (hname, hs) in av.items():
                    if val not in aw:
                        out.append(ob(f"C19/tables-monotone[{pair}]/{enum}", False, f"type {val} of {v} missing in {w}", enum,
                                      {"table_difference": {"enum": enum, "older": hcx.VTAG[v], "newer": hcx.VTAG[w], "values": [int(val)]}}))
                        continue
                    if enum == "Internal" and val == 22 and vt[w] == (2, 2) and vt[v] < (2, 2):
                        continue  # the stated exception: heartbeat response wakes in 2.0/2.1, pre-sleep notification in 2.2
                    if enum == "Internal" and val == 14 and cross:
                        continue  # gateway ready: excluded across 1.x -> 2.x
                    fv, fw = fingerprint(hs, cross), fingerprint(aw[val][1], cross)
                    out.append(ob(f"C19/spec-eq[{pair}]/{enum.lower()}[{val}]", fv == fw, f"{hname} vs {aw[val][0]}", f"{enum}[{val}]"))
            for enum in ("Command", "Presentation", "SetReq", "Internal", "Stream"):
                tv, tw = D[v].table(enum), D[w].table(enum)
                gone = sorted(int(x) for x in set(tv) - set(tw))
                out.append(ob(f"C19/tables-monotone[{pair}]/{enum}", not gone, f"{len(tv)} <= {len(tw)} values", enum,
                              {"table_difference": {"enum": enum, "older": hcx.VTAG[v], "newer": hcx.VTAG[w], "values": gone}} if gone else None))
            for const in ("INTERNAL_COMMAND_TYPE", "STRICT_SYSTEM_COMMAND_TYPES", "VALID_SYSTEM_COMMAND_TYPES", "NODE_ID_REQUEST_TYPES"):
                from pyvc.core import unpoisoned
                cv, cw = unpoisoned(D[v].mod.ns.get(const)), unpoisoned(D[w].mod.ns.get(const))  # (Unsupported if defined outside the subset)
                norm = lambda x: sorted(getattr(m, "value", m) for m in x) if isinstance(x, (set, frozenset, list, tuple)) else getattr(x, "value", x)  # noqa: E731
                out.append(ob(f"C19/same-constants[{pair}]/{const}", norm(cv) == norm(cw), f"{norm(cv)} vs {norm(cw)}", const))
    return out


VSTR = {"14": "1.4", "15": "1.5", "20": "2.0", "21": "2.1", "22": "2.2"}
ORDER = ["14", "15", "20", "21", "22"]
_GROUPS = {}


def _group_key(name, q, case):
    return (q, tuple(case))


def build(world):
    """Two kinds of unit.  (1) every version's handlers against the shared specifications (conformance); (2) for every function
    that two adjacent versions both resolve to (shared, inherited code) a relational unit: the function under version a and
    under version b from the same symbolic pre-state must agree (pyvc/relational.py) - shared code may still read
    version-dependent tables."""
    from pyvc.runner import Unit
    units = hc.build_for(world, "C04")
    groups = {}
    for name, q, ct, cls, case in hc.all_units(world):
        tag = name[len(q):].split("]")[0].lstrip("[")
        if tag in VSTR:
            groups.setdefault(_group_key(name, q, case), {})[tag] = (name, ct, cls)
    _GROUPS.clear()
    _GROUPS.update({k: set(v) for k, v in groups.items()})
    for (q, case), g in sorted(groups.items(), key=lambda kv: repr(kv[0])):
        for a, b in zip(ORDER, ORDER[1:]):
            if a in g and b in g:
                na, cta, clsa = g[a]
                nb, ctb, clsb = g[b]
                u = Unit(f"{q}[{a}~{b}]" + "".join(f"[{c}]" for c in case), q, cta, receiver=clsa, case=case)
                u.relational = (ctb, clsb, a, b, confirm, {"domain": make_domain(world), "skip_pair": skip_pair})
                units.append(u)
    return units


def make_domain(world):
    """The histories C19 speaks about, as a constraint on the symbolic message: its (command, type) exists in the older
    version; not the heartbeat response towards 2.2; not gateway-ready across 1.x -> 2.x."""
    import z3
    tables = {}
    for tag in ORDER:
        ns = world.modules[hcx.PROTO + "protocol_" + tag].ns
        from pyvc.core import unpoisoned
        tables[tag] = {nm: sorted(unpoisoned(ns[nm]).enum_canon) for nm in ("Presentation", "SetReq", "Internal", "Stream")}

    def domain(I, env, ta, tb):
        m = env.get("message")
        if m is None:
            return None
        try:
            k = I.to_term(I.read_field(m, "command"), TInt)
            t = I.to_term(I.read_field(m, "message_type"), TInt)
        except Exception:  # noqa: BLE001
            return None
        tv = tables[ta]
        inn = lambda vals: z3.Or(*[t == v for v in vals]) if vals else z3.BoolVal(False)  # noqa: E731
        dom = z3.Or(z3.And(k == 0, inn(tv["Presentation"])), z3.And(z3.Or(k == 1, k == 2), inn(tv["SetReq"])),
                    z3.And(k == 3, inn(tv["Internal"])), z3.And(k == 4, inn(tv["Stream"])))
        if tb == "22" and ta < "22":
            dom = z3.And(dom, z3.Not(z3.And(k == 3, t == 22)))
        if ta < "20" <= tb:
            dom = z3.And(dom, z3.Not(z3.And(k == 3, t == 14)))
        return dom
    return domain


def skip_pair(ka, kb, ta, tb):
    # across 1.x -> 2.x histories that reference an unknown node or child are outside the property
    return ta < "20" <= tb and any(k in ("raise:MissingNodeError", "raise:MissingChildError") for k in (ka, kb))


def owns(ob_):
    """C19 owns a conformance clause (C04/C06/C07/C10) only in a function that not every version resolves to: a deviation of code
    shared by all five versions is the same deviation in all of them (decided by the relational units), not a difference."""
    if ob_["name"].split("/")[0] == "C19" or "C19" in ob_["name"].split("/")[0].split("+"):
        return True
    uname = ob_.get("unit", "")
    q = uname.split("[")[0]
    covered = set()
    for (gq, case), tags in _GROUPS.items():
        if gq == q:
            covered |= tags
    return bool(covered) and covered != set(ORDER)


def _exists_in(version, command, mtype):
    native.import_repo()
    from aiomysensors.model.protocol import get_protocol
    p = get_protocol(version)
    table = {0: p.Presentation, 1: p.SetReq, 2: p.SetReq, 3: p.Internal, 4: p.Stream}.get(command)
    try:
        table(mtype)
        return True
    except (ValueError, TypeError):
        return False


def _run_one(version, st, metric, line):
    gw, tr = native.make_gateway(version, (), metric=metric)
    rm.install_state(gw, rm.Ref(version, metric), st)
    tr.reads.append(line)
    try:
        m = native.run(gw.listen().__anext__())
        out = ("yield", m.node_id, m.child_id, m.command, m.ack, m.message_type, m.payload)
    except Exception as e:  # noqa: BLE001
        out = ("error", type(e).__name__)
    buf = sorted((k, v.payload) for k, v in gw._message_buffer.set_messages.items())
    return out, rm.real_view(gw), list(tr.writes), buf


def excluded(va, vb, fields, ra, rb):
    n, c, k, a, t = fields
    if not _exists_in(va, k, t):
        return True  # the property speaks about message types of the older protocol
    if k == 3 and t == 22 and vb == "2.2" and va < "2.2":
        return True  # the stated exception: the heartbeat response wakes in 2.0/2.1 only
    if va < "2.0" <= vb:
        if k == 3 and t == 14:
            return True  # gateway ready, excluded across 1.x -> 2.x
        if any(r[0] == ("error", e) for r in (ra, rb) for e in ("MissingNodeError", "MissingChildError")):
            return True  # an unknown node or child is referenced
    return False


def confirm(desc, ta, tb):
    """Native replay of a relational candidate: the model's pre-state and message under both versions on the real code."""
    va, vb = VSTR[ta], VSTR[tb]
    st, mver, metric = hn.state_from_model(desc)
    msg = desc.get("message") or {}
    fields = [msg.get(f) for f in ("node_id", "child_id", "command", "ack", "message_type")]
    if not all(isinstance(x, int) for x in fields):
        return None
    n, c, k, a, t = fields
    a = a if a in (0, 1) else 0
    payloads = [msg.get("payload")] if isinstance(msg.get("payload"), str) else []
    payloads += [p for p in hn.PAYLOAD_POOL if p not in payloads]
    for p in payloads[:8]:
        line = rm.enc(n, c, k, a, t, p)
        if rm.decode(line) is None:
            continue
        ra, rb = _run_one(va, st, metric, line), _run_one(vb, st, metric, line)
        if ra != rb and not excluded(va, vb, (n, c, k, a, t), ra, rb):
            return {"confirmed": True, "versions": [va, vb], "pre_state": hn._jsonable(st), "line": line,
                    "observed": {va: [ra[0], ra[2]], vb: [rb[0], rb[2]]},
                    "registry_differs": ra[1] != rb[1], "buffer_differs": ra[3] != rb[3]}
    return None


def replay(world, ob_):
    if ob_.get("relational"):
        return dict(ob_.get("model") or {}, confirmed=bool(ob_.get("model")))
    td = (ob_.get("model") or {}).get("table_difference")
    if td:
        # a type number of the older table that the newer one lacks: one message of that type from a known node under both versions
        va, vb = VSTR[td["older"]], VSTR[td["newer"]]
        st = {"nodes": {1: {"children": {1: {"type": 6}}}}, "pending": {}, "outstanding": []}
        for val in td["values"]:
            line = {"Presentation": f"1;1;0;0;{val};x", "SetReq": f"1;1;1;0;{val};1", "Internal": f"1;255;3;0;{val};1", "Stream": f"1;255;4;0;{val};1",
                    "Command": f"1;255;{val};0;0;1"}[td["enum"]]
            ra, rb = _run_one(va, st, True, line), _run_one(vb, st, True, line)
            if ra != rb:
                return {"confirmed": True, "versions": [va, vb], "pre_state": "node 1 with child 1 known", "line": line, "observed": {va: [ra[0], ra[2]], vb: [rb[0], rb[2]]}}
        return {"confirmed": False}
    # a conformance clause of a function that only some versions resolve to.  First as a difference between versions: the model's
    # pre-state and message under the unit's version and under each older one (the property's own exclusions applied) ...
    desc = dict(ob_.get("model") or {})
    tb = next((t for t in ORDER if f"[{t}]" in ob_.get("unit", "")), None)
    msg = dict(desc.get("message") or {})
    if tb and all(isinstance(msg.get(f), int) for f in ("command", "message_type", "child_id")):
        msg["command"], msg["message_type"], msg["child_id"] = hn.dispatched_fields(ob_["unit"], VSTR[tb], msg["command"], msg["message_type"], msg["child_id"])
        desc["message"] = msg
        for ta in reversed(ORDER[:ORDER.index(tb)]):
            try:
                found = confirm(desc, ta, tb)
            except Exception:  # noqa: BLE001
                found = None
            if found:
                return found
    # ... then as a deviation of that version from the shared specification, under the property the clause belongs to
    r = {"confirmed": False}
    for p in [p for p in ob_["name"].split("/")[0].split("+") if p in ALSO_PROPERTY] or ["C04"]:
        r = hn.replay(p, world, ob_)
        if r.get("confirmed"):
            break
    return r


def _native_history(version, steps):
    gw, tr = native.make_gateway(version, ())
    outs = []
    for st in steps:
        if st[0] == "recv":
            tr.reads.append(st[1])
            try:
                m = native.run(gw.listen().__anext__())
                outs.append(("yield", m.node_id, m.child_id, m.command, m.message_type, m.payload))
            except Exception as e:  # noqa: BLE001
                outs.append(("error", type(e).__name__))
        elif st[0] == "send":
            from aiomysensors.model.message import Message
            try:
                native.run(gw.send(Message(*st[1:7]), message_buffer=st[7]))
                outs.append(("sent",))
            except Exception as e:  # noqa: BLE001
                outs.append(("send-error", type(e).__name__))
    return outs, rm.real_view(gw), list(tr.writes)


def _line_in_older(a, line):
    """The property speaks about message types that exist in the older protocol."""
    d = rm.decode(line)
    return d is None or _exists_in(a, d[2], d[4])


def _comparable(steps, a, b):
    for st in steps:
        if st[0] == "fail":
            return False
        if st[0] == "recv":
            if not _line_in_older(a, st[1]):
                return False
            f = st[1].split(";")
            if len(f) >= 5 and f[2] == "3" and f[4] in ("22", "32", "2", "1"):
                return False  # heartbeat / pre-sleep (stated exception), version traffic
            if len(f) >= 5 and f[2] == "0" and f[4] in ("17", "18") and f[0] == "0":
                return False  # a gateway presentation switches the protocol version itself
    return True


def bounded(world, tier, seed, rep):
    """Bounded stand-in: the same histories (scripted multi-step ones and random ones) under the ordered pairs of versions of one
    major line must agree natively."""
    import random
    rng = random.Random(seed)
    pairs = [("1.4", "1.5"), ("2.0", "2.1"), ("2.1", "2.2"), ("2.0", "2.2")]
    n, bad = 0, None
    for a, b in pairs:
        for steps in hn.scripted(a):
            if not _comparable(steps, a, b):
                continue
            ra, rb = _native_history(a, steps), _native_history(b, steps)
            n += 1
            if ra != rb and bad is None:
                i = next((i for i, (x, y) in enumerate(zip(ra[0], rb[0])) if x != y), None)
                bad = {"versions": [a, b], "history": steps, "observed": f"first differing step {i}: {ra[0][i] if i is not None else ra[1]} vs {rb[0][i] if i is not None else rb[1]}"}
    budget = 60 if tier == "quick" else 1500
    for _ in range(budget):
        a, b = rng.choice(pairs)
        al = [l for l in hn.alphabet(a) if ";3;0;22;" not in l and ";3;0;32;" not in l and "garbage" not in l and ";3;0;2;" not in l and ";0;0;17;" not in l
              and ";3;0;1;" not in l and _line_in_older(a, l)]
        steps = [("recv", rng.choice(al)) for _ in range(rng.randint(1, 8))]
        ra, rb = _native_history(a, steps), _native_history(b, steps)
        n += 1
        if ra != rb and bad is None:
            bad = {"versions": [a, b], "history": steps, "observed": f"{ra} vs {rb}"[:600]}
    return {"label": "bounded", "scope": f"scripted multi-step histories + {budget} random histories (<= 8 lines, types of the older version) x version pairs of one major line",
            "evaluations": n, "native_failure": bad}


def bounded_search(world, unit_name):
    r = bounded(world, "quick", 0, None)
    return [dict(r["native_failure"], clause="C19/native-cross-version")] if r["native_failure"] else []


def rebuild_inlined(world, failing_helpers):
    """Stale helper clauses: re-prove with the bodies of the functions whose helper clauses failed inlined into their callers."""
    bad = {h["unit"].split("[")[0] for h in failing_helpers}
    units = build(world)
    for u in units:
        u.no_contract_for = tuple(set(u.no_contract_for) | bad)
    return units
