"""Native reference controller written from the property texts (C01-C07, C10, C11) and a differential driver.

Used for (a) replaying solver counter-models against the real code under CPython and (b) the bounded stand-in
searches.  It is an *oracle for replays*, never counted as proof.
"""
from __future__ import annotations

import calendar
import copy
import re
import time

from pyvc import native

SUPPORTED = [(1, 4), (1, 5), (2, 0), (2, 1), (2, 2)]
VSTR = {(1, 4): "1.4", (1, 5): "1.5", (2, 0): "2.0", (2, 1): "2.1", (2, 2): "2.2"}
INTERNAL_MAX = {(1, 4): 14, (1, 5): 17, (2, 0): 28, (2, 1): 28, (2, 2): 33}
RELEASE = re.compile(r"^(\d+)\.(\d+)(\.\d+){0,2}$")


def lib_valid(version):
    try:
        from awesomeversion import AwesomeVersion
        return bool(AwesomeVersion(version).valid)
    except Exception:  # noqa: BLE001
        return False


def select(version):
    """C05: newest supported protocol whose major.minor <= the release version; None if not a release version string."""
    if version is None:
        return (1, 4)
    m = RELEASE.match(version)
    if not m:
        return None
    mm = (int(m.group(1)), int(m.group(2)))
    best = (1, 4)
    for s in SUPPORTED:
        if s <= mm:
            best = s
    return best


def decode(line):
    """C02: accept exactly the well-formed lines; returns the six fields or None."""
    f = line.rstrip().split(";", 5)
    if len(f) < 6:
        return None
    try:
        n, c, k, a, t = (int(x) for x in f[:5])
    except ValueError:
        return None
    if not (0 <= n <= 255 and 0 <= c <= 255 and 0 <= k <= 4 and a in (0, 1)):
        return None
    if k in (3, 4) and not (c == 255 or (k == 3 and t in (3, 4))):
        return None
    if c == 255 and k in (1, 2):
        return None
    return n, c, k, a, t, f[5]


def enc(n, c, k, a, t, p):
    return f"{n};{c};{k};{a};{t};{p}\n"


class Err(Exception):
    def __init__(self, kind, **attrs):
        self.kind = kind
        self.attrs = attrs


def new_node(t, ver):
    return {"type": t, "ver": ver, "battery": 0, "heartbeat": 0, "sketch_name": "", "sketch_version": "",
            "sleeping": False, "reboot": False, "children": {}}


class Ref:
    def __init__(self, version=None, metric=True):
        self.version = version
        self.metric = metric
        self.nodes = {}
        self.pending = {}  # (n,c,t) -> line, insertion ordered
        self.outstanding = set()
        self.writes = []
        self.lenient_version = False
        self.attempts = 0
        self.fail_set = set()

    def proto(self):
        if getattr(self, "force_proto", None) is not None:
            return self.force_proto
        s = select(self.version)
        return s if s is not None else (1, 4)

    def w(self, line):
        i = self.attempts
        self.attempts += 1
        if i in self.fail_set:
            raise Err("TransportError", transport=True)
        self.writes.append(line)

    def set_version(self, p):
        s = select(p)
        if s is None:
            if lib_valid(p):
                # not a release version string (outside C05's quantifier) but a version for the version library ("2", "latest", "v2.1"):
                # the reference follows the library's reading of it (A-AV): sections 0 and 1, missing ones are 0
                from awesomeversion import AwesomeVersion
                v = AwesomeVersion(p)
                mm = (int(v.section(0)), int(v.section(1)))
                best = (1, 4)
                for sup in SUPPORTED:
                    if sup <= mm:
                        best = sup
                self.version, self.force_proto = p, best
                return
            raise Err("InvalidMessageError", lenient=True)
        self.version = p
        self.force_proto = None

    def missing(self, kind, **attrs):
        n = attrs["_n"]
        if self.proto() >= (2, 0) and n not in self.outstanding:
            self.w(enc(n, 255, 3, 0, 19, ""))
            self.outstanding.add(n)
        attrs.pop("_n")
        raise Err(kind, **attrs)

    def need_node(self, n):
        if n not in self.nodes:
            self.missing("MissingNodeError", node_id=n, _n=n)

    def flush(self, n):
        for key in [k for k in self.pending if k[0] == n]:
            self.w(self.pending[key])  # a failing write leaves the entry buffered (C08)
            self.pending.pop(key)

    def handle(self, n, c, k, a, t, p):
        v = self.proto()
        if k == 0:
            if c == 255:
                if v >= (2, 0):
                    self.outstanding.discard(n)
                self.nodes[n] = new_node(t, p)
                if n == 0:
                    self.set_version(p)
                return
            self.need_node(n)
            self.nodes[n]["children"][c] = {"type": t, "desc": p, "values": {}}
        elif k in (1, 2):
            self.need_node(n)
            if c not in self.nodes[n]["children"]:
                self.missing("MissingChildError", child_id=c, _n=n)
            vals = self.nodes[n]["children"][c]["values"]
            if k == 1:
                vals[t] = p
                if self.nodes[n]["reboot"]:
                    self.w(enc(n, 255, 3, 0, 13, ""))
            elif t in vals:
                self.w(enc(n, c, 1, 0, t, vals[t]))
        elif k == 3:
            if not 0 <= t <= INTERNAL_MAX[v]:
                raise Err("UnsupportedMessageError")
            if t == 0:
                self.need_node(n)
                try:
                    b = round(float(p))
                except (ValueError, OverflowError):
                    raise Err("InvalidMessageError") from None
                if not 0 <= b <= 100:
                    raise Err("InvalidMessageError", range_choice=True)
                self.nodes[n]["battery"] = b
            elif t == 1:
                self.w(enc(n, c, 3, 0, 1, "<epoch>"))
            elif t == 2:
                self.set_version(p)
            elif t == 3:
                nid = max(self.nodes) + 1 if self.nodes else 1
                if nid > 254:
                    raise Err("TooManyNodesError")
                self.nodes[nid] = new_node(17, "1.4")
                self.w(enc(n, c, 3, 0, 4, str(nid)))
            elif t == 6:
                self.w(enc(n, c, 3, 0, 6, "M" if self.metric else "I"))
            elif t == 11:
                self.need_node(n)
                self.nodes[n]["sketch_name"] = p
            elif t == 12:
                self.need_node(n)
                self.nodes[n]["sketch_version"] = p
            elif t == 14 and v >= (2, 0):
                self.w(enc(255, c, 3, 0, 20, ""))
            elif t == 21 and v >= (2, 0):
                self.need_node(n)
            elif t == 22 and v >= (2, 0):
                self.need_node(n)
                try:
                    hb = int(p)
                except ValueError:
                    raise Err("InvalidMessageError") from None
                if v < (2, 2):
                    self.nodes[n]["sleeping"] = True
                self.nodes[n]["heartbeat"] = hb
                if v < (2, 2):
                    self.flush(n)
            elif t == 32 and v >= (2, 2):
                self.need_node(n)
                self.nodes[n]["sleeping"] = True
                self.flush(n)
        elif k == 4:
            self.need_node(n)
            if not 0 <= t <= 5:
                raise Err("UnsupportedMessageError")

    def receive(self, line):
        """One listen step: ('yield', fields) or ('error', kind, attrs); writes appended to self.writes."""
        d = decode(line)
        if d is None:
            return ("error", "InvalidMessageError", {})
        n, c, k, a, t, p = d
        out = ("yield", d)
        try:
            self.handle(n, c, k, a, t, p)
        except Err as e:
            out = ("error", e.kind, e.attrs)
        if self.version is None and not (k == 3 and t in (9, 14)):
            try:
                self.w("0;255;3;0;2;\n")
            except Err as e:
                out = ("error", e.kind, e.attrs)
        return out

    def send(self, n, c, k, a, t, p, buffer=True):
        if k == 1 and buffer and n in self.nodes and self.nodes[n]["sleeping"]:
            self.pending[(n, c, t)] = enc(n, c, k, a, t, p)
        else:
            self.w(enc(n, c, k, a, t, p))
            if k == 1 and buffer:
                # C07 "carrying the most recently sent value": a value written directly supersedes an older one still parked for its key
                self.pending.pop((n, c, t), None)

    def view(self):
        return {n: (d["type"], d["ver"], d["battery"], d["heartbeat"], d["sketch_name"], d["sketch_version"], d["sleeping"],
                    {c: (ch["type"], ch["desc"], dict(ch["values"])) for c, ch in d["children"].items()})
                for n, d in self.nodes.items()}


def real_view(gw):
    return {n: (nd.node_type, nd.protocol_version, nd.battery_level, nd.heartbeat, nd.sketch_name, nd.sketch_version, nd.sleeping,
                {c: (ch.child_type, ch.description, dict(ch.values)) for c, ch in nd.children.items()})
            for n, nd in gw.nodes.items()}


def install_state(gw, ref, state):
    """Put the same pre-state into the real gateway and the reference model.  state: dict from a counter-model or a scenario."""
    native.import_repo()
    from aiomysensors.model.node import Node
    from aiomysensors.model.message import Message
    for n, d in state.get("nodes", {}).items():
        node = Node(n, d.get("type", 17), d.get("ver", "1.4"), sketch_name=d.get("sketch_name", ""), sketch_version=d.get("sketch_version", ""),
                    battery_level=d.get("battery", 0), heartbeat=d.get("heartbeat", 0), sleeping=d.get("sleeping", False))
        node.reboot = d.get("reboot", False)
        rn = new_node(d.get("type", 17), d.get("ver", "1.4"))
        for k in ("battery", "heartbeat", "sketch_name", "sketch_version", "sleeping", "reboot"):
            rn[k] = d.get(k, rn[k])
        for c, ch in d.get("children", {}).items():
            node.add_child(c, ch.get("type", 0), description=ch.get("desc", ""), values=dict(ch.get("values", {})))
            rn["children"][c] = {"type": ch.get("type", 0), "desc": ch.get("desc", ""), "values": dict(ch.get("values", {}))}
        gw.nodes[n] = node
        ref.nodes[n] = rn
    for (n, c, t), p in state.get("pending", {}).items():
        m = Message(n, c, 1, 0, t, p)
        gw._message_buffer.set_messages[(n, c, t)] = m
        ref.pending[(n, c, t)] = enc(n, c, 1, 0, t, p)
    for n in state.get("outstanding", ()):
        gw._message_buffer.internal_messages[(n, 255, 19)] = Message(n, 255, 3, 0, 19, "")
        ref.outstanding.add(n)


def norm_writes(ws):
    out = []
    for w in ws:
        f = w.rstrip("\n").split(";", 5)
        if len(f) == 6 and f[2] == "3" and f[4] == "1" and re.fullmatch(r"\d+", f[5] or ""):
            now = calendar.timegm(time.localtime())
            if abs(int(f[5]) - now) <= 5:
                f[5] = "<epoch>"
        out.append(";".join(f) + "\n")
    return out


def classify_write_diff(real, ref):
    props = set()
    both = real + ref
    if any(";3;0;19;" in w for w in both):
        props.add("C10")
    if any(w.split(";")[2:3] == ["1"] for w in both):
        props.update({"C07", "C06"})
    props.add("C06")
    return props


def run_step(version, state, step, metric=True):
    """Run one step on the real gateway and on the reference; returns list of (property ids, description)."""
    native.import_repo()
    from aiomysensors.exceptions import AIOMySensorsError
    from aiomysensors.model.message import Message
    gw, tr = native.make_gateway(version, (), metric=metric)
    ref = Ref(version, metric)
    install_state(gw, ref, state)
    return drive(gw, tr, ref, [step])


def drive(gw, tr, ref, steps):
    from aiomysensors.exceptions import AIOMySensorsError
    from aiomysensors.model.message import Message
    diffs = []
    for i, st in enumerate(steps):
        before_w = len(tr.writes)
        ref.writes = []
        kind = st[0]
        real_out = None
        if kind == "fail":  # the next transport write fails
            tr.fail_writes.add(tr.attempts)
            ref.fail_set.add(ref.attempts)
            continue
        if kind == "recv":
            line = st[1]
            tr.reads.append(line)
            exp = ref.receive(line)
            try:
                msg = native.run(gw.listen().__anext__())
                real_out = ("yield", (msg.node_id, msg.child_id, msg.command, msg.ack, msg.message_type, msg.payload))
            except AIOMySensorsError as e:
                attrs = {k: getattr(e, k) for k in ("node_id", "child_id") if hasattr(e, k)}
                kind_name = "TransportError" if type(e).__name__ in ("TransportFailedError", "TransportReadError") else type(e).__name__
                real_out = ("error", kind_name, attrs)
            except Exception as e:  # noqa: BLE001
                names_unknown = exp[0] == "error" and exp[1] in ("MissingNodeError", "MissingChildError")  # C04: "fails with an error that names that node or child"
                diffs.append(({"C03"} | ({"C02"} if decode(line) is None else set()) | ({"C04"} if names_unknown else set()),
                              f"step {i} {line!r}: non-library exception {type(e).__name__}: {e}" + (f" (expected {exp[1]})" if names_unknown else "")))
                real_out = ("crash", type(e).__name__, {})
            if real_out[0] != "crash":
                d = decode(line)
                if (exp[0] == "error" and exp[1] == "InvalidMessageError" and d is None) != (real_out[0] == "error" and real_out[1] == "InvalidMessageError" and d is None) and d is None:
                    diffs.append(({"C02"}, f"step {i} {line!r}: malformed line not rejected as invalid: {real_out}"))
                elif d is not None and real_out[0] == "error" and real_out[1] == "InvalidMessageError" and exp[0] == "yield":
                    diffs.append(({"C02", "C01"}, f"step {i} {line!r}: well-formed line rejected: {real_out}"))
                elif exp[0] == "yield" and real_out[0] == "yield" and tuple(exp[1]) != tuple(real_out[1]):
                    diffs.append(({"C01", "C02", "C04"}, f"step {i} {line!r}: decoded {real_out[1]} expected {exp[1]}"))
                elif exp[0] != real_out[0] or (exp[0] == "error" and exp[1] != real_out[1]):
                    lenient = exp[0] == "error" and (exp[2].get("lenient") or exp[2].get("range_choice"))
                    if not (lenient and real_out[0] == "yield"):
                        unreported = exp[0] == "error" and exp[1] == "TransportError"  # a failed write that the caller of listen never sees
                        diffs.append(({"C08", "C10", "C06"} if unreported else {"C04", "C05", "C03"}, f"step {i} {line!r}: outcome {real_out} expected {exp[:2]}"))
                elif exp[0] == "error":
                    for k in ("node_id", "child_id"):
                        if k in exp[2] and real_out[2].get(k) != exp[2][k]:
                            diffs.append(({"C04"}, f"step {i} {line!r}: error names {k}={real_out[2].get(k)} expected {exp[2][k]}"))
        elif kind == "send":
            n, c, k, a, t, p, buf = st[1:]
            ref_failed = False
            try:
                ref.send(n, c, k, a, t, p, buf)
            except Err:
                ref_failed = True
            try:
                native.run(gw.send(Message(n, c, k, a, t, p), message_buffer=buf))
            except AIOMySensorsError as e:
                if not ref_failed:
                    diffs.append(({"C12"}, f"step {i} send {st[1:]}: raised {type(e).__name__}"))
            except Exception as e:  # noqa: BLE001
                diffs.append(({"C12", "C03"}, f"step {i} send {st[1:]}: non-library exception {type(e).__name__}: {e}"))
        rw, xw = norm_writes(tr.writes[before_w:]), norm_writes(ref.writes)
        is_wake = False
        if kind == "recv":
            d_ = decode(st[1])
            pv = ref.proto()
            is_wake = d_ is not None and d_[2] == 3 and ((d_[4] == 22 and (2, 0) <= pv < (2, 2)) or (d_[4] == 32 and pv >= (2, 2)))
        if rw != xw:
            if kind == "send":
                props = {"C12"}
            elif any(";3;0;19;" in w for w in rw + xw):
                props = {"C10"}
            elif is_wake:
                props = {"C07"} | ({"C08"} if ref.fail_set else set())
            else:
                props = {"C06"}
            diffs.append((props, f"step {i} {st!r}: wrote {rw} expected {xw}"))
        rv, xv = real_view(gw), ref.view()
        if rv != xv:
            # a rejected gateway-version presentation may legitimately differ only if the model was lenient
            # which node is believed to sleep is C07's state: "sleeping" is index 6 of a node's view
            flag = any(n_ in xv and rv[n_][6] != xv[n_][6] for n_ in rv)
            diffs.append(({"C04", "C13", "C11"} | ({"C07"} if flag else set()), f"step {i} {st!r}: registry {rv} expected {xv}"))
            ref.nodes = {n: {"type": d[0], "ver": d[1], "battery": d[2], "heartbeat": d[3], "sketch_name": d[4], "sketch_version": d[5],
                             "sleeping": d[6], "reboot": gw.nodes[n].reboot,
                             "children": {c: {"type": ch[0], "desc": ch[1], "values": dict(ch[2])} for c, ch in d[7].items()}} for n, d in rv.items()}
        sel = select(gw.protocol_version)
        if sel is not None and gw.protocol.VERSION != VSTR[sel]:
            diffs.append(({"C05"}, f"step {i} {st!r}: version {gw.protocol_version!r} runs rules {gw.protocol.VERSION}, expected {VSTR[sel]}"))
            ref.force_proto = tuple(int(x) for x in gw.protocol.VERSION.split("."))  # follow the real rules from here on (no cascades)
        if gw._message_schema.context.get("protocol") is not gw.protocol:
            diffs.append(({"C05"}, f"step {i} {st!r}: decoder rules differ from handler rules"))
        if ref.version != gw.protocol_version:
            if select(gw.protocol_version) is None and gw.protocol_version is not None:
                # not a release version string major.minor[.patch[.build]]: outside C05's quantifier.  Whether it is a version at
                # all is the version library's call ("2", "latest", "v2.1" are); only a string the library itself calls invalid
                # must not be recorded.  From here on the reference follows the rules the real gateway selected for it.
                if not lib_valid(gw.protocol_version):
                    diffs.append(({"C05"}, f"step {i} {st!r}: rejected version {gw.protocol_version!r} was recorded"))
                ref.force_proto = tuple(int(x) for x in gw.protocol.VERSION.split("."))
            else:
                ref.force_proto = None if getattr(ref, "force_proto", None) is not None and select(gw.protocol_version) is not None else getattr(ref, "force_proto", None)
            ref.version = gw.protocol_version
        rp = {k: enc(m.node_id, m.child_id, m.command, m.ack, m.message_type, m.payload) for k, m in gw._message_buffer.set_messages.items()}
        if rp != ref.pending:
            # a held command that is neither held any more nor was handed to the transport in this step: silently discarded (C12)
            written_now = {w.rstrip("\n") for w in tr.writes[before_w:]}
            lost = [k for k, line in ref.pending.items() if k not in rp and line.rstrip("\n") not in written_now]
            diffs.append(({"C12", "C07"} if kind == "send" else ({"C07"} | ({"C08"} if ref.fail_set else set()) | ({"C12"} if lost else set())),
                          f"step {i} {st!r}: buffered {rp} expected {ref.pending}" + (f" (discarded: {lost})" if lost else "")))
            ref.pending = dict(rp)
    return diffs


def run_history(version, steps, state=None, metric=True):
    gw, tr = native.make_gateway(version, (), metric=metric)
    ref = Ref(version, metric)
    install_state(gw, ref, state or {})
    return drive(gw, tr, ref, steps)
