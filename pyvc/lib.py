"""Library models: the assumed contracts of DESIGN.md §5, executable by the interpreter.

Everything in this file is *trusted*: it states what CPython builtins and the
third-party dependencies do.  Each model names the assumption id (A-STR, A-NUM,
A-ENUM, A-MM, A-AV, A-JSON, A-FS, A-AIO, A-STREAM, A-MQTT, A-CLOCK) it belongs to.
"""
from __future__ import annotations

import ast

import z3

from .core import *  # noqa: F403
from .core import MISSING
from .interp import is_sym, SpecOpt

EXC_TABLE = {
    "BaseException": [],
    "Exception": ["BaseException"],
    "CancelledError": ["BaseException"],
    "KeyboardInterrupt": ["BaseException"],
    "ArithmeticError": ["Exception"],
    "OverflowError": ["ArithmeticError"],
    "LookupError": ["Exception"],
    "KeyError": ["LookupError"],
    "IndexError": ["LookupError"],
    "ValueError": ["Exception"],
    "UnicodeError": ["ValueError"],
    "UnicodeDecodeError": ["UnicodeError"],
    "UnicodeEncodeError": ["UnicodeError"],
    "JSONDecodeError": ["ValueError"],
    "TypeError": ["Exception"],
    "AttributeError": ["Exception"],
    "NameError": ["Exception"],
    "UnboundLocalError": ["NameError"],
    "RuntimeError": ["Exception"],
    "RecursionError": ["RuntimeError"],
    "StopIteration": ["Exception"],
    "StopAsyncIteration": ["Exception"],
    "OSError": ["Exception"],
    "FileNotFoundError": ["OSError"],
    "PermissionError": ["OSError"],
    "IsADirectoryError": ["OSError"],
    "ConnectionError": ["OSError"],
    "TimeoutError": ["OSError"],
    "SerialException": ["OSError"],
    "EOFError": ["Exception"],
    "IncompleteReadError": ["EOFError"],
    "LimitOverrunError": ["Exception"],
    "InvalidStateError": ["Exception"],
    "QueueFull": ["Exception"],
    "QueueEmpty": ["Exception"],
    "ValidationError": ["Exception"],
    "MqttError": ["Exception"],
    "AwesomeVersionException": ["Exception"],
    "AwesomeVersionCompareException": ["AwesomeVersionException"],
    "AwesomeVersionStrategyException": ["AwesomeVersionException"],
}

# uninterpreted spec functions shared by models and contracts (A-STR, A-NUM, A-CLOCK)
dec = z3.Function("dec", IntS, StrS)  # canonical decimal of an int
intlit = z3.Function("IntLit", StrS, BoolS)  # int(s) succeeds
intval = z3.Function("intval", StrS, IntS)  # its value
floatlit = z3.Function("FloatLit", StrS, BoolS)
parse_float = z3.Function("parse_float", StrS, FloatS)
f_isnan = z3.Function("is_nan", FloatS, BoolS)
f_isinf = z3.Function("is_inf", FloatS, BoolS)
round_he = z3.Function("round_he", FloatS, IntS)
f_val = z3.Function("float_value", FloatS, z3.RealSort())  # value of a finite float
f_posinf = z3.Function("is_pos_inf", FloatS, BoolS)
local_epoch = z3.Function("local_epoch", IntS, IntS)  # calendar.timegm(time.localtime()) at tick i
av_valid = z3.Function("av_valid", StrS, BoolS)  # AwesomeVersion(s).valid
av_section = z3.Function("av_section", StrS, IntS, IntS)  # AwesomeVersion(s).section(i)
av_nsec = z3.Function("av_sections", StrS, IntS)  # AwesomeVersion(s).sections
utf8 = z3.Function("utf8", StrS, BytesS)  # str.encode()
utf8_ok = z3.Function("utf8_ok", BytesS, BoolS)  # bytes.decode() succeeds
utf8_dec = z3.Function("utf8_dec", BytesS, StrS)  # its result
rstrip_f = z3.Function("rstrip", StrS, StrS)
sepfree = z3.Function("sepfree", StrS, StrS, BoolS)  # s contains no occurrence of the (1-char) separator
ends_ws = z3.Function("ends_ws", StrS, BoolS)


# A-STR: str(n) of the numerals that occur as wire constants is their decimal literal
from .core import BASE_AXIOMS  # noqa: E402
for _n in list(range(-1, 41)) + [253, 254, 255, 256, 300]:
    BASE_AXIOMS.append(dec(z3.IntVal(_n)) == z3.StringVal(str(_n)))


class SetVal:
    """Spec-level set of K given by its characteristic array."""

    def __init__(self, term, ktype):
        self.term = term
        self.ktype = ktype


class LocalDict(LibObj):
    """An empty dict display `{}`: a Python dict while its keys are concrete; becomes a heap dict on the first symbolic key."""

    def __init__(self):
        super().__init__("local_dict")
        self.py = {}
        self.heap = None

    def obj(self, I):
        if self.heap is None:
            raise Unsupported("local dict with concrete keys used as a heap dict")
        return self.heap

    def setitem(self, I, k, v):
        if self.heap is None and not isinstance(k, (Sym, Obj)):
            self.py[k] = v
            return
        if self.heap is None:
            if self.py:
                raise Unsupported("local dict mixing concrete and symbolic keys")
            kt = TInt if is_sym(k, "int") else TStr if is_sym(k, "str") else None
            if kt is None:
                raise Unsupported("local dict key kind")
            vt = TObj(tname(v.typ)) if isinstance(v, Obj) and v.typ.kind == "obj" else TJson
            self.heap = I.alloc(TDict(kt, vt))
        I.d_setitem(self.heap, k, v)

    def getitem(self, I, k, node):
        if self.heap is not None:
            return I.d_getitem(self.heap, k, None, node)
        if k not in self.py:
            raise RaiseSig(I.make_exc("KeyError", site=node))
        return self.py[k]

    def contains(self, I, x):
        if self.heap is not None:
            return I.d_contains(self.heap, x)
        return x in self.py

    def truthy(self, I):
        if self.heap is not None:
            return I.d_nonempty(self.heap)
        return bool(self.py)

    def iterate(self, I):
        if self.heap is not None:
            raise Unsupported("iteration over a symbolic local dict")
        return list(self.py)

    def attr(self, I, name, fr, node):
        if self.heap is not None:
            return I.lib.obj_attr(I, self.heap, name, fr, node)
        if name in ("get", "pop", "items", "values", "keys"):
            return Builtin(f"dict.{name}", lambda I_, a, k: I_.lib.pydict_method(I_, self.py, name, a, k, node))
        return MISSING


class Lib:
    def __init__(self, world):
        self.w = world
        self.exc = {}
        for name, bases in EXC_TABLE.items():
            self.exc[name] = BuiltinExc(name, [self.exc[b] for b in bases])
        self.tick = 0
        B = Builtin
        self.builtins = {
            "int": B("int", self.b_int), "str": B("str", self.b_str), "float": B("float", self.b_float),
            "round": B("round", self.b_round), "bool": B("bool", self.b_bool), "len": B("len", self.b_len),
            "max": B("max", self.b_max), "min": B("min", self.b_min), "getattr": B("getattr", self.b_getattr), "next": B("next", self.b_next),
            "sorted": B("sorted", self.b_sorted), "list": B("list", self.b_list), "tuple": B("tuple", self.b_tuple),
            "dict": B("dict", self.b_dict), "zip": B("zip", self.b_zip), "set": B("set", self.b_set), "frozenset": B("frozenset", self.b_frozenset),
            "isinstance": B("isinstance", self.b_isinstance), "type": B("type", self.b_type),
            "classmethod": B("classmethod", lambda I, a, k: ClassMethodVal(a[0])),
            "staticmethod": B("staticmethod", lambda I, a, k: StaticMethodVal(a[0])),
            "property": B("property", lambda I, a, k: PropertyVal(a[0])),
            "all": B("all", self.b_all), "any": B("any", self.b_any),
            "range": B("range", self.b_range),
            "bytes": B("bytes", lambda I, a, k: (_ for _ in ()).throw(Unsupported("bytes() call"))),
            "object": B("object", lambda I, a, k: (_ for _ in ()).throw(Unsupported("object() call"))),
            "True": True, "False": False, "None": None,
        }
        for name, cls in self.exc.items():
            self.builtins.setdefault(name, cls)
        self.ext_calls = {}
        self.opaque_attrs = {}
        self.install_models()

    # ------------------------------------------------------------------ names
    def exc_class(self, name):
        if name in self.exc:
            return self.exc[name]
        c = self.w.classes.get(name)
        if c is not None:
            return c
        raise Unsupported(f"unknown exception class {name}")

    def external_module(self, name):
        return ModuleVal(name, external=True)

    def external_name(self, dotted):
        last = dotted.rsplit(".", 1)[-1]
        if dotted == "typing.TYPE_CHECKING":
            return False
        if dotted == "typing.cast":
            return Builtin("cast", lambda I, a, k: a[1])
        if dotted == "functools.cache":
            # functools.cache(f) is f only where "the same key" means "the same arguments": keys are compared with == / hash,
            # so 1, 1.0, True and IntEnum members of different enums with one value are ONE entry (seed C04h). The function is
            # marked; Interp.call accepts a call of it only with arguments for which key equality is value equality.
            def cache_deco(I, a, k):
                if not isinstance(a[0], FuncVal):
                    raise Unsupported("functools.cache of something that is not a plain function")
                a[0].marks["cached"] = True
                return a[0]
            return Builtin("cache", cache_deco)
        if dotted == "functools.wraps":
            return Builtin("wraps", lambda I, a, k: Builtin("wraps.deco", lambda I2, a2, k2: a2[0]))
        if dotted == "abc.abstractmethod":
            return Builtin("abstractmethod", lambda I, a, k: a[0])
        if dotted == "dataclasses.dataclass":
            return Builtin("dataclass", self.b_dataclass)
        if dotted == "dataclasses.field":
            return Builtin("field", lambda I, a, k: LibObj("dc_field", default=k.get("default", MISSING),
                                                           default_factory=k.get("default_factory", MISSING), init=k.get("init", True)))
        if dotted in ("marshmallow.pre_load", "marshmallow.post_load", "marshmallow.post_dump", "marshmallow.decorators.pre_load",
                      "marshmallow.decorators.post_load", "marshmallow.decorators.post_dump"):
            def mark(I, a, k, hook=last):
                a[0].marks["hook"] = hook
                return a[0]
            return Builtin(last, mark)
        if last in self.exc and (dotted.split(".")[0] in ("asyncio", "marshmallow", "aiomqtt", "awesomeversion", "json", "serial", "builtins")):
            return self.exc[last]
        if dotted in ("marshmallow.fields", "marshmallow.validate"):
            return ModuleVal(dotted, external=True)
        return ExternalName(dotted)

    def ext_attr(self, I, v, name):
        return self.external_name(f"{v.dotted}.{name}")

    def b_dataclass(self, I, a, k):
        if a:
            a[0].is_dataclass = True
            return a[0]
        return Builtin("dataclass()", self.b_dataclass)

    # ------------------------------------------------------------------ strings (A-STR)
    def sstr(self, I, v):
        return z3.StringVal(v) if isinstance(v, str) else v.term

    def dec_of(self, I, term):
        """str(int) of a symbolic int, with its lemma instances added to the path."""
        term = z3.simplify(term)
        if z3.is_int_value(term):
            return z3.StringVal(str(term.as_long()))
        s = dec(term)
        I.c.assume(z3.And(intlit(s), intval(s) == term, s != z3.StringVal("")))
        # A-STR: a canonical decimal has no separator, no whitespace, no line terminator
        I.c.assume(z3.And(sepfree(s, z3.StringVal(";")), sepfree(s, z3.StringVal("/")),
                          sepfree(s, z3.StringVal("\n")), rstrip_f(s) == s))
        for hook in getattr(I, "dec_hooks", ()):  # property-specific lemma schemas (C01, C18)
            hook(I, term, s)
        return s

    def to_str(self, I, v):
        if isinstance(v, bool):
            return str(v)
        if isinstance(v, (int, str)):
            return str(v)
        if v is None:
            return "None"
        if isinstance(v, EnumMember):
            return str(v.value)  # IntEnum.__str__ is int.__repr__ since 3.11
        if is_sym(v, "str"):
            return v
        if is_sym(v, "int"):
            return Sym(self.dec_of(I, v.term), "str")
        return self.opaque_str(I, "str")

    def opaque_str(self, I, tag):
        return Sym(I.c.fresh(f"s_{tag}", StrS), "str")

    def concat(self, I, parts):
        out = []
        for p in parts:
            if isinstance(p, str):
                if p == "":
                    continue
                if out and isinstance(out[-1], str):
                    out[-1] += p
                else:
                    out.append(p)
            elif is_sym(p, "str"):
                out.append(p)
            else:
                raise Unsupported(f"concat of {p!r}")
        if not out:
            return ""
        if len(out) == 1:
            return out[0]
        return Sym(z3.Concat(*[self.sstr(I, p) for p in out]), "str")

    def ite(self, I, c, a, b):
        for kind, T_ in (("int", TInt), ("str", TStr), ("bool", TBool)):
            try:
                return I.mk(z3.If(c, I.to_term(a, T_), I.to_term(b, T_)), kind)
            except Unsupported:
                continue
        if isinstance(a, Obj) and isinstance(b, Obj):
            return Obj(z3.If(c, a.ref, b.ref), a.typ)
        raise Unsupported("ite operands")

    def bitor(self, I, a, b):
        raise Unsupported("| operator")

    def order_compare(self, I, op, a, b):
        r = self.model_order_compare(I, op, a, b)
        if r is MISSING:
            raise Unsupported(f"ordering of {a!r} and {b!r}")
        return r

    def float_real(self, I, x):
        """(is_nan, is_inf, is_pos_inf, value) of an operand of a float comparison; None if it is not numeric."""
        if is_sym(x, "float"):
            I.c.assume(z3.Not(z3.And(f_isnan(x.term), f_isinf(x.term))))
            return f_isnan(x.term), f_isinf(x.term), f_posinf(x.term), f_val(x.term)
        if isinstance(x, bool):
            return None
        if isinstance(x, (int, float)):
            if x != x:
                return z3.BoolVal(True), z3.BoolVal(False), z3.BoolVal(False), z3.RealVal(0)
            if x in (float("inf"), float("-inf")):
                return z3.BoolVal(False), z3.BoolVal(True), z3.BoolVal(x > 0), z3.RealVal(0)
            return z3.BoolVal(False), z3.BoolVal(False), z3.BoolVal(False), z3.RealVal(repr(x) if isinstance(x, int) else str(x))
        i = I.intv(x)
        if i is not None and not isinstance(i, int):
            return z3.BoolVal(False), z3.BoolVal(False), z3.BoolVal(False), z3.ToReal(i)
        return None

    def float_compare(self, I, op, a, b):
        """IEEE comparison (A-NUM): every ordering with a NaN operand is False; infinities are ordered beyond every finite value."""
        fa, fb = self.float_real(I, a), self.float_real(I, b)
        if fa is None or fb is None:
            return MISSING
        (na, ia, pa, va), (nb, ib, pb, vb) = fa, fb
        less = isinstance(op, (ast.Lt, ast.LtE))
        strict = isinstance(op, (ast.Lt, ast.Gt))
        if not less:  # a > b  ==  b < a
            (na, ia, pa, va), (nb, ib, pb, vb) = fb, fa
        # a < b (or a <= b) for non-NaN operands on the extended real line
        a_neg_inf, a_pos_inf = z3.And(ia, z3.Not(pa)), z3.And(ia, pa)
        b_neg_inf, b_pos_inf = z3.And(ib, z3.Not(pb)), z3.And(ib, pb)
        fin = z3.And(z3.Not(ia), z3.Not(ib))
        lt = z3.Or(z3.And(a_neg_inf, z3.Not(b_neg_inf)), z3.And(b_pos_inf, z3.Not(a_pos_inf)), z3.And(fin, va < vb))
        eq = z3.Or(z3.And(a_neg_inf, b_neg_inf), z3.And(a_pos_inf, b_pos_inf), z3.And(fin, va == vb))
        r = z3.And(z3.Not(na), z3.Not(nb), lt if strict else z3.Or(lt, eq))
        return I.mk(r, "bool")

    def model_order_compare(self, I, op, a, b):
        if isinstance(a, LibObj) and a.kind == "awesomeversion":
            return self.av_compare(I, op, a, b)
        if is_sym(a, "float") or is_sym(b, "float"):
            return self.float_compare(I, op, a, b)
        if isinstance(a, tuple) and isinstance(b, tuple) and len(a) == len(b):
            # lexicographic comparison of equal-length int tuples
            ia, ib = [I.intv(x) for x in a], [I.intv(x) for x in b]
            if any(x is None for x in ia + ib):
                return MISSING
            strict = isinstance(op, (ast.Gt, ast.Lt))
            less = isinstance(op, (ast.Lt, ast.LtE))
            r = z3.BoolVal(not strict)
            for x, y in reversed(list(zip(ia, ib))):
                x, y = (z3.IntVal(x) if isinstance(x, int) else x), (z3.IntVal(y) if isinstance(y, int) else y)
                r = z3.Or(x < y, z3.And(x == y, r)) if less else z3.Or(x > y, z3.And(x == y, r))
            return I.mk(r, "bool")
        return MISSING

    def contains(self, I, cont, x, fr):
        if isinstance(cont, SetVal):
            return z3.Select(cont.term, I.to_term(x, cont.ktype))
        if isinstance(cont, LibObj) and hasattr(cont, "contains"):
            return cont.contains(I, x)
        if is_sym(cont, "str") or isinstance(cont, str):
            if isinstance(x, str) or is_sym(x, "str"):
                if isinstance(cont, str) and isinstance(x, str):
                    return x in cont
                return I.c.fresh("substring", BoolS)  # substring test on a symbolic string: either answer
            I.raise_("TypeError")
        if cont is None or isinstance(cont, (int, bool)) or is_sym(cont, "int") or is_sym(cont, "bool") or is_sym(cont, "float"):
            I.raise_("TypeError")  # argument of type ... is not iterable
        raise Unsupported(f"'in' on {cont!r}")

    def truthy_sym(self, I, v):
        raise Unsupported(f"truthiness of {v!r}")

    # ------------------------------------------------------------------ containers
    def make_set(self, I, items):
        if any(isinstance(x, (Sym, Obj)) for x in items):
            return tuple(items)  # only membership tests are supported on it
        return set(items)

    def make_dict(self, I, d):
        return d if d else LocalDict()

    def iterate(self, I, v):
        if isinstance(v, (list, tuple)):
            return list(v)
        if isinstance(v, (set, frozenset)):
            return sorted(v, key=lambda m: m.value if isinstance(m, EnumMember) else m)
        if isinstance(v, dict):
            return list(v)
        if isinstance(v, ClassVal) and v.enum_canon is not None:
            return [v.enum_canon[x] for x in v.enum_canon]
        if hasattr(v, "__next__"):
            return v  # lazy python generator driven by the interpreter
        if isinstance(v, LibObj) and hasattr(v, "iterate"):
            return v.iterate(I)
        raise Unsupported(f"iteration over {v!r}")

    def is_symbolic_iterable(self, I, v):
        return isinstance(v, LibObj) and v.kind in ("dict_items", "dict_values", "dict_keys") or (isinstance(v, Obj) and v.typ.kind == "dict")

    def slice(self, I, v, lo, hi):
        if isinstance(v, (list, tuple, str)) and all(isinstance(x, (int, type(None))) for x in (lo, hi)):
            return v[lo:hi]
        if isinstance(v, LibObj) and hasattr(v, "slice"):
            return v.slice(I, lo, hi)
        if isinstance(v, Sym) and v.kind == "str" and all(x is None or (isinstance(x, int) and x >= 0) for x in (lo, hi)):
            # s[lo:hi] with constant non-negative bounds: z3's str.substr has exactly Python's clamping for them.
            # The case "nothing is cut" is split off so that the result stays the structural term s there.
            lo = lo or 0
            n = z3.Length(v.term)
            if hi is None:
                if lo == 0:
                    return v
                return Sym(z3.SubString(v.term, lo, n - lo), "str")
            if hi <= lo:
                return ""
            if lo == 0 and I.c.branch(n <= hi, "slice-cuts-nothing"):
                return v
            return Sym(z3.SubString(v.term, lo, hi - lo), "str")
        raise Unsupported("slice")

    def getitem(self, I, v, k, fr, node):
        if isinstance(v, LibObj) and hasattr(v, "getitem"):
            return v.getitem(I, k, node)
        raise Unsupported(f"subscript of {v!r}")

    def setitem(self, I, o, k, v, fr, node):
        if isinstance(o, LibObj) and hasattr(o, "setitem"):
            return o.setitem(I, k, v)
        raise Unsupported(f"item assignment on {o!r}")

    def set_attr(self, I, o, name, v, fr, node):
        raise Unsupported(f"attribute assignment on {o!r}")

    def dictcomp(self, I, n, fr):
        """{k: v for k, v in D.items() if cond(v)} over a heap dict -> fresh heap dict (filtered view)."""
        if len(n.generators) != 1:
            return MISSING
        g = n.generators[0]
        it = I.ev(g.iter, fr)
        if not (isinstance(it, LibObj) and it.kind == "dict_items"):
            if hasattr(it, "__next__"):
                raise Unsupported("dict comprehension over a generator")
            return MISSING  # the generic path evaluates the (concrete, side-effect free) iterable again
        d = it.d
        t = g.target
        if not (isinstance(t, ast.Tuple) and len(t.elts) == 2 and all(isinstance(e, ast.Name) for e in t.elts)
                and isinstance(n.key, ast.Name) and n.key.id == t.elts[0].id
                and isinstance(n.value, ast.Name) and n.value.id == t.elts[1].id):
            raise Unsupported("dict comprehension shape")
        ks = sort_of(d.typ.args[0])
        kv = z3.Const(f"k!{next(I.c._ctr)}", ks)
        nf = I.comp_frame(fr)
        nf.spec = True  # filter must be a pure, total expression
        nf.heap = I.c.heap
        nf.locals[t.elts[0].id] = I.wrap(kv, d.typ.args[0], nf)
        nf.locals[t.elts[1].id] = I.wrap(z3.Select(I.d_map(d), kv), d.typ.args[1], nf)
        conds = [I.as_bool(I.truthy(I.ev(c, nf))) for c in g.ifs]
        body = z3.And(z3.Select(I.d_dom(d), kv), *conds)
        new = I.alloc(d.typ)
        I.d_set_dom(new, z3.Lambda([kv], body))
        I.d_set_map(new, I.d_map(d))
        return new

    # ------------------------------------------------------------------ attribute access on values
    def value_attr(self, I, v, name, fr, node):
        if isinstance(v, LibObj):
            if hasattr(v, "attr"):
                r = v.attr(I, name, fr, node)
                if r is not MISSING:
                    return r
            if v.kind == "logger":
                return Builtin("log", lambda I, a, k: None)
            raise Unsupported(f"attribute {name} of {v!r}")
        if isinstance(v, str) or is_sym(v, "str"):
            if not hasattr(str, name):
                raise RaiseSig(I.make_exc("AttributeError", site=node))
            return Builtin(f"str.{name}", lambda I_, a, k: self.str_method(I_, v, name, a, k, node))
        if isinstance(v, dict):
            return Builtin(f"dict.{name}", lambda I_, a, k: self.pydict_method(I_, v, name, a, k, node))
        if isinstance(v, list):
            if name == "append":
                def append(I_, a, k):
                    I_.w.check_not_shared(v, "append")
                    v.append(a[0])
                return Builtin("list.append", append)
        if isinstance(v, FuncVal) and name in v.marks:
            return v.marks[name]
        if is_sym(v) and hasattr(self, "sym_attr"):
            r = self.sym_attr(I, v, name, fr, node)
            if r is not MISSING:
                return r
        if isinstance(v, (int, bool)) or is_sym(v, "int") or is_sym(v, "bool"):
            if not hasattr(int, name):
                raise RaiseSig(I.make_exc("AttributeError", site=node))
        raise Unsupported(f"attribute {name} of {v!r}")

    def pydict_method(self, I, d, name, a, k, node):
        if name in ("get", "pop") and a and I.has_symbolic_part(a[0]):
            if name == "pop":
                raise Unsupported("dict.pop with a symbolic key on a concrete dict")
            for key in list(d):  # a symbolic key into a concrete table: one path per entry it can equal, then the default
                if I.c.branch(I.as_bool(I.eq_term(a[0], key)), "dict-get-key"):
                    return d[key]
            return a[1] if len(a) > 1 else None
        if name == "get":
            return d.get(a[0], a[1] if len(a) > 1 else None)
        if name == "pop":
            I.w.check_not_shared(d, "pop")
            if a[0] in d:
                return d.pop(a[0])
            if len(a) > 1:
                return a[1]
            raise RaiseSig(I.make_exc("KeyError", site=node))
        if name == "items":
            return list(d.items())
        if name == "values":
            return list(d.values())
        if name == "keys":
            return list(d.keys())
        raise Unsupported(f"dict.{name}")

    def str_method(self, I, s, name, a, k, node):
        if isinstance(s, str) and all(isinstance(x, (str, int)) for x in a) and not k:
            if name in ("lower", "upper", "rstrip", "strip", "split", "rpartition", "replace", "startswith", "endswith", "join"):
                return getattr(s, name)(*a)
            if name == "encode":
                if len(a) > 1 or (a and a[0] not in ("utf-8", "utf8", "UTF-8")):
                    raise Unsupported("str.encode with an encoding other than utf-8 or an errors argument")
                return self.bytes_val(I, s.encode())
        if not hasattr(str, name):
            raise RaiseSig(I.make_exc("AttributeError", site=node))
        r = self.model_str_method(I, s, name, a, k, node)
        if r is MISSING:
            raise Unsupported(f"str.{name} on symbolic string")
        return r

    def model_str_method(self, I, s, name, a, k, node):
        from . import strings
        return strings.str_method(self, I, s, name, a, k, node)

    def obj_attr(self, I, o, name, fr, node):
        if o.typ.kind == "dict":
            if name in ("items", "values", "keys"):
                return Builtin(f"dict.{name}", lambda I_, a, k: LibObj(f"dict_{name}", d=o))
            if name == "get":
                return Builtin("dict.get", lambda I_, a, k: I_.d_get(o, a[0], a[1] if len(a) > 1 else None))
            if name == "pop":
                return Builtin("dict.pop", lambda I_, a, k: I_.d_pop(o, a[0], a[1] if len(a) > 1 else MISSING, site=node))
            if name == "clear":
                def clear(I_, a, k):
                    I_.d_set_dom(o, z3.K(sort_of(o.typ.args[0]), z3.BoolVal(False)))
                    return None
                return Builtin("dict.clear", clear)
            if name == "setdefault":
                def setdefault(I_, a, k):
                    if I_.c.branch(I_.as_bool(I_.d_contains(o, a[0])), "setdefault-hit"):
                        return I_.d_getitem(o, a[0], None, node)
                    v = a[1] if len(a) > 1 else None
                    I_.d_setitem(o, a[0], v)
                    return v
                return Builtin("dict.setdefault", setdefault)
            if hasattr(dict, name):
                raise Unsupported(f"dict.{name} on a heap dict")  # a real dict method this model does not cover: never an AttributeError
            return MISSING
        r = self.model_obj_attr(I, o, name, fr, node)
        return r

    def model_obj_attr(self, I, o, name, fr, node):
        cls = self.w.class_by_name(tname(o.typ)) if o.typ.kind == "obj" else None
        if cls is not None and any(b.startswith("marshmallow.") and b.endswith("Schema") for b in cls.ext_bases()):
            from . import mm
            return mm.schema_attr(self, I, o, cls, name, fr, node)
        if o.typ.kind in ("opaque", "obj"):
            h = self.opaque_attrs.get(tname(o.typ))
            if h is not None:
                return h(I, o, name, fr, node)
        return MISSING

    def exc_attr(self, I, e, name):
        return MISSING

    def super_fallback(self, I, sp, name):
        if name == "__init__":
            def init(I_, a, k, sp=sp):
                if isinstance(sp.selfv, ExcObj):
                    sp.selfv.args = tuple(a)
                return None
            return Builtin("object.__init__", init)
        raise Unsupported(f"super().{name} resolves outside the repository")

    # ------------------------------------------------------------------ builtins (A-NUM, A-ENUM)
    def b_int(self, I, a, k):
        if len(a) > 1 or k:
            raise Unsupported("int() with a base")
        v = I.force(a[0]) if a else 0
        i = I.intv(v)
        if i is not None:
            return I.mk(i, "int")
        if isinstance(v, str):
            try:
                return int(v)
            except ValueError:
                I.raise_("ValueError")
        if is_sym(v, "str"):
            if not I.c.branch(intlit(v.term), "int(str)-ok"):
                I.raise_("ValueError")
            return Sym(intval(v.term), "int")
        if v is None or isinstance(v, (Obj, tuple, list, dict)):
            I.raise_("TypeError")
        r = self.model_int(I, v)
        if r is MISSING:
            raise Unsupported(f"int({v!r})")
        return r

    def model_int(self, I, v):
        if isinstance(v, LibObj) and v.kind == "json_scalar":
            if v.jkind == "float":  # int(float): nan -> ValueError, +-inf -> OverflowError, else truncation
                c = I.c
                o = c.choose([c.fresh("float_is_nan", BoolS), c.fresh("float_is_inf", BoolS)], "int(float)")
                if o == 0:
                    I.raise_("ValueError")
                if o == 1:
                    I.raise_("OverflowError")
                return Sym(c.fresh("truncated", IntS), "int")
            I.raise_("TypeError")  # int(list)
        return MISSING

    def b_str(self, I, a, k):
        return self.to_str(I, a[0]) if a else ""

    def b_float(self, I, a, k):
        if len(a) != 1 or k:
            raise Unsupported("float() with other than one positional argument")
        v = a[0]
        if isinstance(v, (int, float)) and not isinstance(v, bool):
            return float(v)
        if isinstance(v, str):
            try:
                return float(v)
            except ValueError:
                I.raise_("ValueError")
        if is_sym(v, "str"):
            if not I.c.branch(floatlit(v.term), "float(str)-ok"):
                I.raise_("ValueError")
            return Sym(parse_float(v.term), "float")
        raise Unsupported(f"float({v!r})")

    def b_round(self, I, a, k):
        if len(a) > 1 or k:
            raise Unsupported("round() with ndigits")
        v = a[0]
        if isinstance(v, float):
            try:
                return round(v)
            except ValueError:
                I.raise_("ValueError")
            except OverflowError:
                I.raise_("OverflowError")
        if isinstance(v, int):
            return v
        if is_sym(v, "float"):
            if I.c.branch(f_isnan(v.term), "round-nan"):
                I.raise_("ValueError")
            if I.c.branch(f_isinf(v.term), "round-inf"):
                I.raise_("OverflowError")
            r = round_he(v.term)
            I.c.assume(z3.And(z3.ToReal(r) - z3.RealVal("1/2") <= f_val(v.term), f_val(v.term) <= z3.ToReal(r) + z3.RealVal("1/2")))
            return Sym(r, "int")
        if is_sym(v, "int"):
            return v
        raise Unsupported("round")

    def b_bool(self, I, a, k):
        return I.mk(I.truthy(a[0]), "bool") if a else False

    def b_len(self, I, a, k):
        v = a[0]
        if isinstance(v, LibObj) and hasattr(v, "length"):
            return v.length(I)
        if isinstance(v, (str, list, tuple, dict, set, frozenset)):
            return len(v)
        if is_sym(v, "str"):
            return Sym(z3.Length(v.term), "int")
        if isinstance(v, LibObj) and hasattr(v, "length"):
            return v.length(I)
        if isinstance(v, LibObj) and v.kind == "local_dict":
            v = v.heap if v.heap is not None else v
            if isinstance(v, LibObj):
                return len(v.py)
        if isinstance(v, Obj) and v.typ.kind == "dict":
            # len of a heap dict: an uninterpreted cardinality of its key set with the facts that hold for every finite set
            # (ground instances only: a refutation that leans on it is a candidate for native replay, as with strings)
            dom = I.d_dom(v)
            ks = sort_of(v.typ.args[0])
            card = z3.Function(f"card[{ks}]", arr(ks, BoolS), IntS)
            n = card(dom)
            c = I.c
            c.assume(n >= 0)
            c.assume((n == 0) == (dom == z3.K(ks, z3.BoolVal(False))))
            if v.typ.args[0] == TInt:
                wit = c.fresh("len_witness", IntS)  # n >= 1 -> some key exists; n >= 2 -> two different keys exist
                wit2 = c.fresh("len_witness", IntS)
                c.assume(z3.Implies(n >= 1, z3.Select(dom, wit)))
                c.assume(z3.Implies(n >= 2, z3.And(z3.Select(dom, wit2), wit2 != wit)))
                I.d_elem_facts(v, wit)
                I.d_elem_facts(v, wit2)
                lo, hi = c.fresh("len_lo", IntS), c.fresh("len_hi", IntS)  # a key range of width w holds at most w keys
                kq = z3.Int("k_len")
                c.assume(z3.Implies(z3.ForAll([kq], z3.Implies(z3.Select(dom, kq), z3.And(lo <= kq, kq <= hi))), n <= hi - lo + 1))
                if tname(v.typ.args[1]) == "Node":
                    c.assume(n <= 256)  # WF: registry keys are 0..255
            return Sym(n, "int")
        raise Unsupported("len")

    def b_max(self, I, a, k):
        r = self._minmax2(I, a, True)
        if r is not MISSING:
            return r
        v = a[0]
        if isinstance(v, Obj) and v.typ.kind == "dict" and v.typ.args[0] == TInt and len(a) == 1:
            if not I.c.branch(I.d_nonempty(v), "max-nonempty"):
                if "default" in k:
                    return k["default"]
                I.raise_("ValueError")
            r = I.c.fresh("max", IntS)
            dom = I.d_dom(v)
            kq = z3.Int("k_max")
            I.c.assume(z3.Select(dom, r))
            I.c.assume(z3.ForAll([kq], z3.Implies(z3.Select(dom, kq), kq <= r)))
            I.d_elem_facts(v, r)
            return Sym(r, "int")
        if isinstance(v, (list, tuple)) and all(isinstance(x, int) for x in v):
            if not v:
                if "default" in k:
                    return k["default"]
                I.raise_("ValueError")
            return max(v)
        raise Unsupported("max")

    def _minmax2(self, I, a, is_max):
        vals = [I.intv(x) for x in a]
        if len(a) >= 2 and all(v is not None for v in vals):
            r = vals[0]
            for v in vals[1:]:
                r_ = z3.IntVal(r) if isinstance(r, int) else r
                v_ = z3.IntVal(v) if isinstance(v, int) else v
                r = z3.If(r_ >= v_, r_, v_) if is_max else z3.If(r_ <= v_, r_, v_)
            return I.mk(r, "int")
        return MISSING

    def b_min(self, I, a, k):
        r = self._minmax2(I, a, False)
        if r is MISSING:
            raise Unsupported("min")
        return r

    def b_range(self, I, a, k):
        if all(isinstance(x, int) for x in a):
            return list(range(*a))
        raise Unsupported("range with symbolic bounds")

    def b_getattr(self, I, a, k):
        o, name = a[0], a[1]
        if not isinstance(name, str):
            raise Unsupported("getattr with symbolic name")
        fr = Frame(None, {})
        try:
            return I.get_attr(o, name, fr)
        except RaiseSig as r:
            if r.exc.cls.name == "AttributeError" and len(a) > 2:
                return a[2]
            raise

    def b_next(self, I, a, k):
        it = a[0]
        if hasattr(it, "__next__"):
            for x in it:
                return x
            if len(a) > 1:
                return a[1]
            I.raise_("StopIteration")
        raise Unsupported("next")

    def b_sorted(self, I, a, k):
        xs = self.iterate(I, a[0])
        xs = list(xs)
        if any(isinstance(x, (Sym, Obj)) for x in xs):
            raise Unsupported("sorted of symbolic values")
        if "key" in k and k["key"] is not None:
            raise Unsupported("sorted with a key function")
        return sorted(xs, reverse=bool(k.get("reverse", False)))

    def b_list(self, I, a, k):
        return list(self.iterate(I, a[0])) if a else []

    def b_tuple(self, I, a, k):
        return tuple(self.iterate(I, a[0])) if a else ()

    def b_set(self, I, a, k):
        return self.make_set(I, list(self.iterate(I, a[0]))) if a else set()

    def b_frozenset(self, I, a, k):
        if k or len(a) > 1:
            raise Unsupported("frozenset arguments")
        s = self.make_set(I, list(self.iterate(I, a[0]))) if a else set()
        return frozenset(s) if isinstance(s, set) else s  # (a tuple when an element is symbolic: membership tests only)

    def b_dict(self, I, a, k):
        d = {}
        if a:
            src = a[0]
            if isinstance(src, dict):
                d.update(src)
            else:
                for kv in self.iterate(I, src):
                    kk, vv = kv
                    if isinstance(kk, (Sym, Obj)):
                        raise Unsupported("dict() with symbolic keys")
                    d[kk] = vv
        d.update(k)
        return d

    def b_zip(self, I, a, k):
        seqs = [self.iterate_list(I, x, want=None) for x in a]
        n = None
        for s in seqs:
            if isinstance(s, list):
                n = len(s) if n is None else min(n, len(s))
        out_lists = []
        for s in seqs:
            if isinstance(s, list):
                out_lists.append(s[:n])
            else:
                out_lists.append(s.take(I, n))
        m = min(len(x) for x in out_lists)
        return [tuple(x[i] for x in out_lists) for i in range(m)]

    def iterate_list(self, I, x, want=None):
        if isinstance(x, LibObj) and hasattr(x, "take"):
            return x
        return list(self.iterate(I, x))

    def b_isinstance(self, I, a, k):
        """isinstance(x, T) for the builtin types and repository classes; anything else is outside the subset."""
        if len(a) != 2 or k:
            raise Unsupported("isinstance arguments")
        x, T_ = I.force(a[0]), a[1]
        types = list(T_) if isinstance(T_, tuple) else [T_]

        def kind_of(v):
            if v is None:
                return "NoneType"
            if isinstance(v, bool) or is_sym(v, "bool"):
                return "bool"
            if isinstance(v, int) or is_sym(v, "int"):
                return "int"
            if isinstance(v, float) or is_sym(v, "float"):
                return "float"
            if isinstance(v, str) or is_sym(v, "str"):
                return "str"
            if is_sym(v, "bytes") or (isinstance(v, LibObj) and v.kind == "pybytes_sym"):
                return "bytes"
            if isinstance(v, (dict,)) or (isinstance(v, LibObj) and v.kind == "local_dict") or (isinstance(v, Obj) and v.typ.kind == "dict"):
                return "dict"
            if isinstance(v, list):
                return "list"
            if isinstance(v, tuple):
                return "tuple"
            if isinstance(v, (set, frozenset)):
                return "set"
            if isinstance(v, LibObj) and v.kind == "json_scalar":
                return v.jkind  # "list" / "float"
            return None
        kx = kind_of(x)
        out = False
        for t in types:
            if isinstance(t, Builtin):
                if kx is None:
                    if isinstance(x, (Obj, ExcObj)) and t.name in ("int", "str", "bool", "float", "dict", "list", "tuple", "set", "bytes"):
                        continue  # an instance of a repository class is none of the builtin value types
                    raise Unsupported(f"isinstance of {x!r}")
                if t.name == kx or (t.name == "int" and kx == "bool"):
                    out = True
            elif isinstance(t, ClassVal) or isinstance(t, BuiltinExc):
                if isinstance(x, ExcObj):
                    out = out or x.cls.is_subclass_of(t)
                elif isinstance(x, Obj) and x.typ.kind == "obj" and isinstance(t, ClassVal):
                    c = I.class_of(x)
                    if c is None:
                        raise Unsupported(f"isinstance of {x!r}")
                    out = out or c.is_subclass_of(t)
                elif kx is not None or isinstance(x, (Obj, ExcObj)):
                    continue
                else:
                    raise Unsupported(f"isinstance of {x!r}")
            else:
                raise Unsupported(f"isinstance against {t!r}")
        return out

    def b_type(self, I, a, k):
        c = I.class_of(a[0])
        if c is None:
            raise Unsupported("type()")
        return c

    def b_all(self, I, a, k):
        items = list(self.iterate(I, a[0]))
        ts = [I.as_bool(I.truthy(x)) for x in items]
        return I.mk(z3.And(*ts) if ts else z3.BoolVal(True), "bool")

    def b_any(self, I, a, k):
        items = list(self.iterate(I, a[0]))
        ts = [I.as_bool(I.truthy(x)) for x in items]
        return I.mk(z3.Or(*ts) if ts else z3.BoolVal(False), "bool")

    # ------------------------------------------------------------------ external calls
    def call_external(self, I, f, args, kwargs, fr, node):
        if isinstance(f, LibObj):
            if hasattr(f, "call"):
                return f.call(I, args, kwargs, fr, node)
            raise Unsupported(f"call of {f!r}")
        h = self.ext_calls.get(f.dotted)
        if h is None:
            raise Unsupported(f"no model for external call {f.dotted}")
        return h(I, args, kwargs, fr, node)

    def instantiate(self, I, cls, args, kwargs, fr, node):
        ext = cls.ext_bases()
        if "marshmallow.fields.Field" in ext:
            return LibObj("mm_field", fieldcls=cls, ftype="custom", required=kwargs.get("required", False),
                          validators=[], inner=None)
        return MISSING

    def await_value(self, I, v, fr, node):
        if isinstance(v, LibObj) and hasattr(v, "awaited"):
            return v.awaited(I, fr, node)
        if isinstance(v, Obj) and v.typ.kind == "opaque" and tname(v.typ) in getattr(self, "await_opaque", {}):
            return self.await_opaque[tname(v.typ)](I, v, fr, node)
        if v is None or isinstance(v, (Sym, Obj, str, int)):
            return v  # result of an already-run library coroutine model
        raise Unsupported(f"await of {v!r}")

    def cm_enter(self, I, cm, fr, is_async, node):
        if isinstance(cm, LibObj) and hasattr(cm, "enter"):
            return cm.enter(I, fr, node)
        raise Unsupported(f"with on {cm!r}")

    def cm_exit(self, I, cm, exc, fr, is_async, node):
        return cm.exit(I, exc, fr, node)

    def bytes_val(self, I, b):
        return LibObj("pybytes", value=b)

    def bytes_const(self, I, b):
        raise Unsupported("bytes constant in heap")

    def install_models(self):
        from . import models
        models.install(self)
