"""Contracts: representation, verification of a unit against its contract, use at call sites, loops.

DESIGN.md §4/§6.  A contract is data in /verif/contracts/*.py; clause texts are
Python expressions evaluated by the interpreter in *spec mode* (total, fork-free)
over the pre-state (`old(...)`) and the post-state heap.
"""
from __future__ import annotations

import ast
import re
import time

import z3

from .core import *  # noqa: F403
from .core import MISSING
from .interp import Interp, SpecOpt, is_sym
from . import lib as L

OBLIG_TIMEOUT_MS = 20000
UNIT_BUDGET_S = {"quick": 900, "thorough": 3600}  # wall time per unit before it counts as outside reach (no unit of the unchanged tree needs more than 30 s; the margin is for changed code on a busy machine)


class Clause:
    def __init__(self, cid, text, tag="helper", guard=None):
        self.id = cid
        self.text = text
        self.guard = guard  # clause is `implies(guard, ...)`: on paths where the guard is false it holds trivially
        self.tag = tag  # 'property' | 'helper' | 'canary'

    def __repr__(self):
        return f"{self.id}[{self.tag}]"


def P(cid, text):
    return Clause(cid, text, "property")


def H(cid, text):
    return Clause(cid, text, "helper")


def CANARY(cid, text):
    """A deliberately false clause: it must be refuted (vacuity guard, DESIGN.md §7b)."""
    return Clause(cid, text, "canary")


class Contract:
    def __init__(self, qualname, *, params, requires=(), modifies=(), ensures=(), raises=None, lets=None,
                 fresh=None, returns=None, exc_attrs=None, wf=True, awaits="sequential", pre_lets=None, result_name="result",
                 check_wf=True, env=None, witness=None):
        self.qualname = qualname
        self.params = params  # ordered dict: name -> T | ('cls',) | ('const', value)
        self.requires = list(requires)
        self.modifies = list(modifies)
        self.ensures = list(ensures)
        self.raises = dict(raises or {})  # exc class name -> [Clause]
        self.lets = dict(lets or {})  # post-state definitions
        self.pre_lets = dict(pre_lets or {})  # pre-state definitions
        self.fresh = dict(fresh or {})  # name -> (T, defining expr in post-state[, outcomes])
        self.returns = returns
        self.exc_attrs = dict(exc_attrs or {})
        self.wf = wf
        self.check_wf = check_wf
        self.env = dict(env or {})
        self.optional_outcomes = ()
        self.raises_only_id = "C03/raises-only"
        self.quantified_wf = ()  # dict types whose WF element invariant is also assumed as a quantified axiom
        self.witness = dict(witness or {})  # name -> (T, witness expr): existential in callers, witness term when proving


class Oblig:
    def __init__(self, name, tag, status, secs, path, model=None, backend="z3", unit=""):
        self.name = name
        self.tag = tag
        self.status = status  # unsat | sat | unknown
        self.secs = secs
        self.path = path
        self.model = model
        self.backend = backend
        self.unit = unit

    def as_dict(self):
        return {"name": self.name, "tag": self.tag, "status": self.status, "secs": round(self.secs, 4),
                "backend": self.backend, "unit": self.unit, "path": self.path, "model": self.model}


# ----------------------------------------------------------------------------
# spec-mode evaluation

_PARSED = {}


def parse_expr(text):
    t = _PARSED.get(text)
    if t is None:
        t = ast.parse(text.strip(), mode="eval").body
        _PARSED[text] = t
    return t


class SpecFrame(Frame):
    def __init__(self, env, new_heap, old_heap, globals_):
        super().__init__(None, globals_)
        self.locals = dict(env)
        self.spec = True
        self.heap = new_heap
        self.old_heap = old_heap
        self.new_heap = new_heap


def eval_spec(I, text, env, new_heap, old_heap):
    fr = SpecFrame(env, new_heap, old_heap, I.w.spec_globals)
    if callable(text):
        return text(I, fr)
    return I.ev(parse_expr(text), fr)


def eval_bool(I, text, env, new_heap, old_heap):
    v = eval_spec(I, text, env, new_heap, old_heap)
    return I.as_bool(I.truthy(v))


def form_old(I, n, fr):
    nf = Frame(None, fr.globals, fr)
    nf.spec = True
    nf.heap = fr.old_heap
    nf.old_heap = fr.old_heap
    nf.new_heap = getattr(fr, "new_heap", None)
    return I.ev(n.args[0], nf)


def _quant(I, n, fr, q):
    lam = n.args[0]
    if not isinstance(lam, ast.Lambda):
        raise Unsupported("forall/exists expects a lambda")
    kinds = [I.ev(a, fr) for a in n.args[1:]] or ["int"] * len(lam.args.args)
    nf = Frame(None, fr.globals, fr)
    nf.spec, nf.heap = True, fr.heap
    nf.old_heap, nf.new_heap = getattr(fr, "old_heap", None), getattr(fr, "new_heap", None)
    vs = []
    for a, kind in zip(lam.args.args, kinds):
        if kind == "int":
            v = z3.Const(f"{a.arg}!q{next(I.c._ctr)}", IntS)
            nf.locals[a.arg] = Sym(v, "int")
        elif kind == "key3":
            v = z3.Const(f"{a.arg}!q{next(I.c._ctr)}", Key3)
            nf.locals[a.arg] = Sym(v, "key3")
        elif kind == "str":
            v = z3.Const(f"{a.arg}!q{next(I.c._ctr)}", StrS)
            nf.locals[a.arg] = Sym(v, "str")
        else:
            v = z3.Const(f"{a.arg}!q{next(I.c._ctr)}", Ref)
            nf.locals[a.arg] = Obj(v, TObj(kind))
        vs.append(v)
    body = I.as_bool(I.truthy(I.ev(lam.body, nf)))
    return Sym(q(vs, body), "bool")


def form_forall(I, n, fr):
    return _quant(I, n, fr, z3.ForAll)


def form_exists(I, n, fr):
    return _quant(I, n, fr, z3.Exists)


def form_implies(I, n, fr):
    a = I.as_bool(I.truthy(I.ev(n.args[0], fr)))
    b = I.as_bool(I.truthy(I.ev(n.args[1], fr)))
    return I.mk(z3.Implies(a, b), "bool")


def form_iff(I, n, fr):
    a = I.as_bool(I.truthy(I.ev(n.args[0], fr)))
    b = I.as_bool(I.truthy(I.ev(n.args[1], fr)))
    return I.mk(a == b, "bool")


def form_at_interference(I, n, fr):
    """Evaluate in the heap as it was right after the interference at the last await (rely/guarantee, C09)."""
    snap = getattr(I, "interference_snap", None)
    if snap is None:
        raise Unsupported("at_interference() without an interfering await on this path")
    nf = Frame(None, fr.globals, fr)
    nf.spec = True
    nf.heap = snap
    nf.old_heap = getattr(fr, "old_heap", None)
    nf.new_heap = getattr(fr, "new_heap", None)
    return I.ev(n.args[0], nf)


def form_before_interference(I, n, fr):
    """Evaluate in the heap as it was when the task suspended at the last interfering await, before the other tasks ran."""
    snap = getattr(I, "pre_interference_snap", None)
    if snap is None:
        raise Unsupported("before_interference() without an interfering await on this path")
    nf = Frame(None, fr.globals, fr)
    nf.spec = True
    nf.heap = snap
    nf.old_heap = getattr(fr, "old_heap", None)
    nf.new_heap = getattr(fr, "new_heap", None)
    return I.ev(n.args[0], nf)


SPEC_FORMS = {"at_interference": form_at_interference, "before_interference": form_before_interference, "old": form_old, "forall": form_forall, "exists": form_exists, "implies": form_implies, "iff": form_iff}


# ----------------------------------------------------------------------------
# modifies clauses -> per-field sets of locations


class Frames:
    """Which (field, ref) and (dict, key) locations a contract may change."""

    def __init__(self):
        self.fields = {}  # field name -> [ref terms]   (instance fields incl. '?none' twin)
        self.dicts = {}  # (domname, mapname) -> [(dref, key term | None)]
        self.ghost = set()  # ghost/global field names modifiable as a whole
        self.sorts = {}


def eval_modifies(I, ct, env, heap):
    fs = Frames()
    for m in ct.modifies:
        cond = z3.BoolVal(True)
        if isinstance(m, tuple):  # (pre-state condition, location): modifiable only when the condition holds
            cond = eval_bool(I, m[0], env, heap, heap)
            m = m[1]
            if I.c.solver.check(cond) == z3.unsat:
                continue
        if m.startswith("ghost.") or m.startswith("field:"):
            fs.ghost.add(m.split(":", 1)[-1])
            continue
        node = parse_expr(m)
        fr = SpecFrame(env, heap, heap, I.w.spec_globals)
        if isinstance(node, ast.Attribute):
            o = I.ev(node.value, fr)
            if isinstance(o, SpecOpt):
                o = o.value
            decl, t = I.field_decl(tname(o.typ), node.attr)
            if t is None:
                raise Unsupported(f"modifies: no field {m}")
            name = I.fname(decl, node.attr)
            fs.fields.setdefault(name, []).append((o.ref, cond))
            fs.sorts[name] = sort_of(t.args[0] if t.kind == "opt" else t)
            if t.kind == "opt":
                fs.fields.setdefault(name + "?none", []).append((o.ref, cond))
                fs.sorts[name + "?none"] = BoolS
        elif isinstance(node, ast.Subscript):
            d = I.ev(node.value, fr)
            if isinstance(d, SpecOpt):
                d = d.value
            if isinstance(d, LibObj) and d.kind == "local_dict":
                d = d.obj(I)
            key = None
            if not (isinstance(node.slice, ast.Constant) and node.slice.value is Ellipsis):
                key = I.to_term(I.ev(node.slice, fr), d.typ.args[0])
            fs.dicts.setdefault((I.dom_name(d.typ), I.map_name(d.typ), d.typ), []).append((d.ref, key, cond))
        else:
            raise Unsupported(f"modifies entry {m}")
    return fs


# ----------------------------------------------------------------------------
# obligations


def check_goal(I, goal, name, tag, unit, extra_hyps=()):
    c = I.c
    s = c.solver
    t0 = time.time()
    s.push()
    s.set("timeout", OBLIG_TIMEOUT_MS)
    for h in extra_hyps:
        s.add(h)
    s.add(z3.Not(goal))
    r = s.check()
    model = None
    status = "unsat" if r == z3.unsat else ("sat" if r == z3.sat else "unknown")
    described = I.c.__dict__.setdefault("described", {})
    if r == z3.sat and tag != "canary" and described.get(name, 0) < 2:
        described[name] = described.get(name, 0) + 1
        try:
            model = I.w.describe_model(I, s.model())
        except Exception as e:  # noqa: BLE001
            model = {"error": f"model extraction failed: {e!r}"}
    smt2 = None
    if status == "unknown":
        smt2 = s.to_smt2()
    xcheck = None
    if status == "unsat" and getattr(I.w, "tier", "quick") == "thorough":
        n_ = I.w.__dict__.setdefault("_xcheck_ctr", [0])
        n_[0] += 1
        if n_[0] % 40 == 1:  # thorough tier: a sample of discharged obligations is re-discharged by the second solver
            xcheck = s.to_smt2()
    s.pop()
    s.set("timeout", c.FEAS_TIMEOUT_MS)
    ob = Oblig(name, tag, status, time.time() - t0, list(c.notes), model, "z3", unit)
    ob.smt2 = smt2
    ob.xcheck = xcheck
    c.obligs.append(ob)
    return ob


def wf_goals(I, heap0, heap1, unit_name):
    """Element clauses of WF in the final heap, skolemised (DESIGN.md §3.3 dict invariants)."""
    goals = []
    for dt in I.w.types.WF_DICTS:
        dn, mn = I.dom_name(dt), I.map_name(dt)
        if dn not in heap1.cur and mn not in heap1.cur and not any(
                f in heap1.cur for f in ("Node.node_id", "Child.child_id", "Message.node_id", "Message.child_id", "Message.message_type")):
            continue
        ks, vs = sort_of(dt.args[0]), sort_of(dt.args[1])
        d = I.c.fresh("wf_d", Ref)
        k = I.c.fresh("wf_k", ks)
        dobj = Obj(d, dt)
        hyps = []
        for h in I.c.wf_snaps:
            v0 = z3.Select(I.d_map(dobj, h), k)
            inv0 = I.w.types.elem_inv(I, h, dt, k, v0)
            al = I.alive(h)
            hyps.append(z3.Implies(z3.And(z3.Select(al, d), z3.Select(I.d_dom(dobj, h), k)), z3.And(z3.Select(al, v0), *inv0)))
        v1 = z3.Select(I.d_map(dobj, heap1), k)
        inv1 = I.w.types.elem_inv(I, heap1, dt, k, v1)
        if not inv1:
            continue
        # d ranges over dicts of this type: those alive in a WF snapshot and those allocated on this path
        # (Ref is untyped: other objects' slots in this dict type's arrays hold junk that no typed read reaches)
        typed = [z3.Select(I.alive(h), d) for h in I.c.wf_snaps] + [d == r for r, t in I.c.allocs if t == dt]
        goal = z3.Implies(z3.And(z3.Or(*typed), z3.Select(I.d_dom(dobj, heap1), k)), z3.And(*inv1))
        goals.append((f"wf/{tname(dt)}", goal, hyps))
    return goals


def frame_goals(I, fs, heap0, heap1):
    goals = []
    al0 = I.alive(heap0)
    dictfields = {}
    for (dn, mn, dt), locs in fs.dicts.items():
        dictfields.setdefault(dn, []).extend(locs)
        dictfields.setdefault(mn, []).extend(locs)
    if "*" in fs.ghost:
        return goals
    for name, final in heap1.cur.items():
        if name == "alive":
            continue
        init = heap0.get(name, final.sort())
        if z3.eq(final, init):
            continue
        if name in fs.ghost:
            continue
        srt = final.sort()
        if name in dictfields or name.startswith("dom[") or name.startswith("map["):
            locs = dictfields.get(name, [])
            r = I.c.fresh("fr_d", Ref)
            k = I.c.fresh("fr_k", srt.range().domain())
            allowed = [z3.And(cnd, r == d) if key is None else z3.And(cnd, r == d, k == key) for d, key, cnd in locs]
            goal = z3.Implies(z3.And(z3.Select(al0, r), z3.Not(z3.Or(*allowed)) if allowed else z3.BoolVal(True)),
                              z3.Select(z3.Select(final, r), k) == z3.Select(z3.Select(init, r), k))
            goals.append((f"frame/{name}", goal))
        elif isinstance(srt, z3.ArraySortRef) and srt.domain() == Ref:
            refs = fs.fields.get(name, [])
            r = I.c.fresh("fr_o", Ref)
            goal = z3.Implies(z3.And(z3.Select(al0, r), *[z3.Not(z3.And(cnd, r == x)) for x, cnd in refs]), z3.Select(final, r) == z3.Select(init, r))
            goals.append((f"frame/{name}", goal))
        else:
            goals.append((f"frame/{name}", final == init))
    return goals


# ----------------------------------------------------------------------------
# verifying a unit against its contract


def make_param(I, name, spec, receiver):
    if spec == "cls":
        return receiver
    if isinstance(spec, tuple) and spec[0] == "const":
        return spec[1]
    if isinstance(spec, tuple) and spec[0] == "exc":
        return ExcObj(I.w.lib.exc_class(spec[1]), ())
    if isinstance(spec, T):
        t = spec
        if t.kind == "opt":
            raise Unsupported("optional parameter: split the contract by case")
        term = I.c.fresh(name, sort_of(t))
        v = I.wrap(term, t)
        if isinstance(v, Obj):
            I.c.assume(z3.Select(I.alive(), v.ref))
        return v
    raise Unsupported(f"param spec {spec!r}")


def build_env(I, ct, args_env, new_heap, old_heap, extra=None):
    env = dict(ct.env)
    env.update(args_env)
    if extra:
        env.update(extra)
    for k, text in ct.pre_lets.items():
        env[k] = eval_spec(I, text, env, old_heap, old_heap)
    return env


def add_lets(I, ct, env, new_heap, old_heap, outcome="normal"):
    for k, (t, text) in ct.witness.items():
        cw = getattr(I, "callee_witness", {})
        # a witness produced by a callee's contract on this path (its existential) is the witness here too
        env[k] = cw[k] if k in cw else eval_spec(I, text, env, new_heap, old_heap)
    for k, text in ct.lets.items():
        env[k] = eval_spec(I, text, env, new_heap, old_heap)
    for k, fd in ct.fresh.items():
        try:
            env[k] = eval_spec(I, fd["is"], env, new_heap, old_heap)
        except Unsupported:
            pass  # not defined in this outcome (e.g. `result` after a raise)
    return env


def verify_unit(world, func, ct, receiver=None, unit_name=None, setup=None, max_paths=4000, case=(), collector=None):
    """Symbolically execute `func` against contract `ct`; returns (obligations, stats).

    With a `collector` list the paths are only summarised (path condition, outcome, final heap) for a relational
    comparison (pyvc/relational.py); no clause is checked."""
    unit_name = unit_name or (func.qualname + (f"[{receiver.module.rsplit('_', 1)[-1]}]" if isinstance(receiver, ClassVal) else ""))
    all_obligs = []
    stats = {"paths": 0, "unit": unit_name, "outcomes": {}, "feas_unknown": 0}
    if getattr(ct, "unsupported_reason", None):
        stats["unsupported"] = ct.unsupported_reason
        stats["secs"] = 0.0
        return all_obligs, stats

    def unit(ctx):
        I = Interp(world, ctx)
        I.top = func
        I.unit_name = unit_name
        if setup:
            setup(I)
        args_env = {}
        for name, spec in ct.params.items():
            args_env[name] = make_param(I, name, spec, receiver)
        heap0 = ctx.heap.snapshot()
        ctx.wf_snaps.append(heap0)
        env = build_env(I, ct, args_env, heap0, heap0)
        ctx.env = env
        for r in ct.requires:
            text = r.text if isinstance(r, Clause) else r
            ctx.assume(eval_bool(I, text, env, heap0, heap0))
        for dt in ct.quantified_wf:
            dq = z3.Const("d_wfq", Ref)
            kq = z3.Const("k_wfq", sort_of(dt.args[0]))
            dobj = Obj(dq, dt)
            vq = z3.Select(I.d_map(dobj, heap0), kq)
            inv = I.w.types.elem_inv(I, heap0, dt, kq, vq)
            ctx.assume(z3.ForAll([dq, kq], z3.Implies(z3.And(z3.Select(I.alive(heap0), dq), z3.Select(I.d_dom(dobj, heap0), kq)),
                                                      z3.And(z3.Select(I.alive(heap0), vq), *inv))))
        for cs in case:  # one arm of an exhaustive case split of the unit
            ctx.assume(eval_bool(I, cs, env, heap0, heap0))
        if ctx.solver.check() == z3.unsat:
            raise Unsupported(f"{unit_name}: requires is unsatisfiable (vacuous contract)")
        fs = eval_modifies(I, ct, env, heap0)
        ctx.prologue_fresh = ctx.n_fresh
        if getattr(ct, "closure_params", None):
            cf = Frame(None, world.modules[func.module].ns)
            cf.locals = {k: args_env[k] for k in ct.closure_params}
            func.closure = cf
        sig = func.node.args
        pnames = [p.arg for p in sig.posonlyargs + sig.args]
        args = [args_env[p] for p in pnames]
        kwargs = {p.arg: args_env[p.arg] for p in sig.kwonlyargs if p.arg in args_env}
        outcome, val = "normal", None
        try:
            val = I.run_body(func, args, kwargs)
        except RaiseSig as r:
            outcome, val = "raise", r.exc
        except PathEnd as pe:
            outcome, val = pe.kind, pe.value
        heap1 = ctx.heap.snapshot()
        stats["paths"] += 1
        key = outcome if outcome != "raise" else f"raise:{val.cls.name}"
        stats["outcomes"][key] = stats["outcomes"].get(key, 0) + 1
        ctx.note(f"outcome={key}")
        if collector is not None:
            collector.append({"ctx": ctx, "I": I, "key": key, "heap0": heap0, "heap1": heap1, "val": val})
            return outcome
        if outcome == "raise":
            clauses = None
            for ename, cl in ct.raises.items():
                if val.cls.is_subclass_of(world.lib.exc_class(ename)):
                    clauses = cl
                    break
            if clauses is None:
                fname = ct.qualname.replace(".__wrapped__", "").rsplit(".", 1)[-1]
                ob = check_goal(I, z3.BoolVal(False), f"{ct.raises_only_id}/{fname}:{val.cls.name}", "property", unit_name)
                ob.path = ob.path + [f"raised at line {getattr(val.site, 'lineno', '?')}"]
                # what other properties say about the pre-states in which an exception the contract does not know may not escape
                for cl in getattr(ct, "unexpected_exc", ()):
                    ob = check_goal(I, eval_bool(I, cl.text, env, heap1, heap0), f"{cl.id}/{fname}:{val.cls.name}", cl.tag, unit_name)
                    ob.path = ob.path + [f"raised at line {getattr(val.site, 'lineno', '?')}"]
                return outcome
            env2 = dict(env)
            env2["exc"] = val
        elif outcome in ("normal", "yield"):
            clauses = ct.ensures
            env2 = dict(env)
            env2["result"] = val
        else:
            return outcome
        okey = "normal" if outcome != "raise" else val.cls.name
        env2 = add_lets(I, ct, env2, heap1, heap0, outcome=okey)
        guard_live = {}
        for cl in clauses:
            if cl.guard is not None:
                if cl.guard not in guard_live:
                    g = eval_bool(I, cl.guard, env2, heap1, heap0)
                    guard_live[cl.guard] = ctx.solver.check(g) != z3.unsat
                if not guard_live[cl.guard]:
                    stats["trivial_clauses"] = stats.get("trivial_clauses", 0) + 1
                    continue  # implies(false, ...) on this path
            try:
                goal = eval_bool(I, cl.text, env2, heap1, heap0)
            except RaiseSig as r:
                # the clause itself cannot be evaluated in this final state (a key it reads is gone, an attribute is missing):
                # it does not hold
                goal = z3.BoolVal(False)
                ctx.note(f"evaluating the clause raises {r.exc.cls.name}")
            check_goal(I, goal, cl.id, cl.tag, unit_name)
        for k, fd in ct.fresh.items():
            if okey in fd.get("outcomes", ["normal"]) and k in env2 and isinstance(env2[k], Obj):
                when = eval_bool(I, fd.get("when", "True"), env2, heap0, heap0)
                check_goal(I, z3.Implies(when, z3.Not(z3.Select(I.alive(heap0), env2[k].ref))), f"fresh/{k}", "helper", unit_name)
        hook = getattr(ct, "exit_hook", None)
        if hook is not None:  # obligations generated from what the path did (e.g. one crash condition per file-system effect)
            for name, tag, goal in hook(I, outcome, heap0, heap1):
                check_goal(I, goal, name, tag, unit_name)
        for name, goal in frame_goals(I, fs, heap0, heap1):
            check_goal(I, goal, name, "helper", unit_name)
        if ct.check_wf:
            for name, goal, hyps in wf_goals(I, heap0, heap1, unit_name):
                check_goal(I, goal, name, "helper", unit_name, hyps)
        return outcome

    t0 = time.time()
    paths = []
    try:
        explore(unit, max_paths=max_paths, deadline=t0 + UNIT_BUDGET_S[getattr(world, "tier", "quick")], done=paths)
    except Unsupported as e:
        stats["unsupported"] = str(e)
        paths = []
    except Budget as e:
        # what was explored stays (a refuted obligation is a refuted obligation); the rest of the unit is outside reach this run
        stats["unsupported"] = str(e)
    for ctx, out in paths:
        all_obligs.extend(ctx.obligs)
        stats["feas_unknown"] += ctx.feas_unknown
    # vacuity guard: every outcome the contract describes must be reached by at least one feasible path
    stats["wanted"] = ["normal"] + [f"raise:{k}" for k in ct.raises if f"raise:{k}" not in getattr(ct, "optional_outcomes", ())]
    if "normal" in getattr(ct, "optional_outcomes", ()):
        stats["wanted"].remove("normal")
    if "unsupported" not in stats and not case:
        wanted = ["normal"] + [f"raise:{k}" for k in ct.raises]
        seen = set(stats["outcomes"])
        for k in wanted:
            hit = k in seen or (k == "normal" and "yield" in seen) or any(
                s.startswith("raise:") and world.lib.exc_class(s[6:]).is_subclass_of(world.lib.exc_class(k[6:])) for s in seen if k.startswith("raise:"))
            if not hit and k not in getattr(ct, "optional_outcomes", ()):
                all_obligs.append(Oblig(f"cover/{k}", "cover", "uncovered", 0.0, [], None, "z3", unit_name))
    stats["secs"] = round(time.time() - t0, 3)
    return all_obligs, stats


# ----------------------------------------------------------------------------
# using a contract at a call site


def apply_contract(I, ct, f, args, kwargs, fr, node):
    c = I.c
    loc = I.bind(f, args, kwargs)
    args_env = {k: v for k, v in loc.items()}
    pre = c.heap.snapshot()
    env = build_env(I, ct, args_env, pre, pre)
    for r in ct.requires:
        text = r.text if isinstance(r, Clause) else r
        rid = r.id if isinstance(r, Clause) else "requires"
        goal = eval_bool(I, text, env, pre, pre)
        callee = ct.qualname.rsplit('.', 1)[-1]
        # a precondition that carries a property id is that property's obligation at every call site
        oname = f"{rid}@call:{callee}" if re.match(r"C\d\d", rid) else f"pre/{callee}/{rid}"
        check_goal(I, goal, oname, "helper", getattr(I, "unit_name", ""))
        c.assume(goal)
    if ct.wf:
        # the callee's contract speaks about a well-formed heap and hands one back: the heap it is called on must be well formed
        # (otherwise "WF holds after the call" would launder an invariant this function has broken before the call)
        for name, goal, hyps in wf_goals(I, pre, pre, getattr(I, "unit_name", "")):
            check_goal(I, goal, f"{name}@call:{ct.qualname.rsplit('.', 1)[-1]}", "helper", getattr(I, "unit_name", ""), hyps)
    fs = eval_modifies(I, ct, env, pre)
    # fresh objects the callee allocates
    fresh_objs = {}
    # choose the outcome
    outcomes = ["normal"] + list(ct.raises)
    oc = c.fresh("outcome", IntS)
    i = c.choose([oc == j for j in range(len(outcomes) - 1)], f"outcome({ct.qualname.rsplit('.', 1)[-1]})")
    out = outcomes[i]
    # havoc the frame
    for name, refs in fs.fields.items():
        a = c.heap.get(name, arr(Ref, fs.sorts[name]))
        for r, cnd in refs:
            a = z3.Store(a, r, z3.If(cnd, c.fresh("hv", fs.sorts[name]), z3.Select(a, r)))
        c.heap.set(name, a)
    for (dn, mn, dt), locs in fs.dicts.items():
        ks, vs = sort_of(dt.args[0]), sort_of(dt.args[1])
        da = c.heap.get(dn, arr(Ref, arr(ks, BoolS)))
        ma = c.heap.get(mn, arr(Ref, arr(ks, vs)))
        for d, key, cnd in locs:
            if key is None:
                da = z3.Store(da, d, z3.If(cnd, c.fresh("hvdom", arr(ks, BoolS)), z3.Select(da, d)))
                ma = z3.Store(ma, d, z3.If(cnd, c.fresh("hvmap", arr(ks, vs)), z3.Select(ma, d)))
            else:
                da = z3.Store(da, d, z3.Store(z3.Select(da, d), key, z3.If(cnd, c.fresh("hvin", BoolS), z3.Select(z3.Select(da, d), key))))
                ma = z3.Store(ma, d, z3.Store(z3.Select(ma, d), key, z3.If(cnd, c.fresh("hvv", vs), z3.Select(z3.Select(ma, d), key))))
        c.heap.set(dn, da)
        c.heap.set(mn, ma)
    for g in fs.ghost:
        if g == "*":
            continue
        c.heap.set(g, c.fresh("hvg_" + g, named_field_sort(I, g)))
    env2 = dict(env)
    if out == "normal":
        alloc_fresh(I, ct, "normal", fresh_objs)
        res = None
        if ct.returns is not None:
            if isinstance(ct.returns, str):
                res = "pending"
            else:
                res = I.wrap(c.fresh("ret", sort_of(ct.returns)), ct.returns)
        env2["result"] = res
        post = c.heap
        if isinstance(ct.returns, str):
            env2["result"] = eval_spec(I, ct.returns, env2, post, pre)
            res = env2["result"]
        for k, (t, text) in ct.witness.items():
            env2[k] = I.wrap(c.fresh(k, sort_of(t)), t)
            I.__dict__.setdefault("callee_witness", {})[k] = env2[k]
        for k, text in ct.lets.items():
            env2[k] = eval_spec(I, text, env2, post, pre)
        bind_fresh(I, ct, "normal", fresh_objs, env2, post, pre)
        glive = {}
        for cl in ct.ensures:
            if cl.tag == "canary" or (ct.qualname, cl.id) in getattr(I, "drop_clauses", ()):
                continue
            if cl.guard is not None:
                if cl.guard not in glive:
                    glive[cl.guard] = c.solver.check(eval_bool(I, cl.guard, env2, post, pre)) != z3.unsat
                if not glive[cl.guard]:
                    continue
            c.assume(eval_bool(I, cl.text, env2, post, pre))
        if c.solver.check() == z3.unsat:
            raise Infeasible()
        hook = getattr(I, "ghost_after", {}).get(ct.qualname)
        if hook is not None:
            hook(I, fr)  # sidecar ghost statement attached to this call site of the unit under verification
        if ct.wf:
            c.wf_snaps.append(c.heap.snapshot())
        return res
    # exceptional outcome
    ecls = I.w.lib.exc_class(out)
    e = ExcObj(ecls, ())
    e.site = node
    e.from_contract = ct.qualname
    for an, at in ct.exc_attrs.get(out, {}).items():
        e.attrs[an] = I.wrap(c.fresh(f"exc_{an}", sort_of(at)), at)
    env2["exc"] = e
    for k, (t, text) in ct.witness.items():
        env2[k] = I.wrap(c.fresh(k, sort_of(t)), t)
        I.__dict__.setdefault("callee_witness", {})[k] = env2[k]
    alloc_fresh(I, ct, out, fresh_objs)
    for k, text in ct.lets.items():
        try:
            env2[k] = eval_spec(I, text, env2, c.heap, pre)
        except Unsupported:
            pass
    bind_fresh(I, ct, out, fresh_objs, env2, c.heap, pre)
    glive = {}
    for cl in ct.raises[out]:
        if cl.tag == "canary" or (ct.qualname, cl.id) in getattr(I, "drop_clauses", ()):
            continue
        if cl.guard is not None:
            if cl.guard not in glive:
                glive[cl.guard] = c.solver.check(eval_bool(I, cl.guard, env2, c.heap, pre)) != z3.unsat
            if not glive[cl.guard]:
                continue
        c.assume(eval_bool(I, cl.text, env2, c.heap, pre))
    if c.solver.check() == z3.unsat:
        raise Infeasible()
    if ct.wf:
        c.wf_snaps.append(c.heap.snapshot())
    raise RaiseSig(e)


def alloc_fresh(I, ct, outcome, fresh_objs):
    c = I.c
    for k, fd in ct.fresh.items():
        if outcome not in fd.get("outcomes", ["normal"]):
            continue
        t = fd["type"]
        o = I.alloc(t)
        fresh_objs[k] = o
        havoc_object(I, o)  # its fields are unconstrained
        if t.kind == "dict":
            ks_, vs_ = sort_of(t.args[0]), sort_of(t.args[1])
            I.d_set_dom(o, c.fresh("hvdom", arr(ks_, BoolS)))
            I.d_set_map(o, c.fresh("hvmap", arr(ks_, vs_)))


def bind_fresh(I, ct, outcome, fresh_objs, env2, post, pre):
    for k, fd in ct.fresh.items():
        try:
            defd = eval_spec(I, fd["is"], env2, post, pre)
        except Unsupported:
            continue
        env2[k] = defd
        if k not in fresh_objs:
            continue
        when = eval_bool(I, fd.get("when", "True"), env2, pre, pre)
        I.c.assume(z3.Implies(when, defd.ref == fresh_objs[k].ref))
        env2[k] = defd


def named_field_sort(I, name):
    """Sort of a heap field given by name (ghost fields, dom[K,V] / map[K,V] dict fields)."""
    if name in I.w.ghost_sorts:
        return I.w.ghost_sorts[name]
    cur = I.c.heap.cur.get(name)
    if cur is None:
        cur = I.c.heap.init.get(name)
    if cur is not None:
        return cur.sort()
    if name.startswith(("dom[", "map[")):
        k, v = name[4:-1].split(",", 1)
        prim = {"int": IntS, "str": StrS, "key3": Key3, "json": JsonS, "bool": BoolS}
        ks = prim.get(k, Ref)
        vs = prim.get(v, Ref)
        return arr(Ref, arr(ks, BoolS if name.startswith("dom[") else vs))
    raise Unsupported(f"unknown heap field {name} in a modifies clause")


def havoc_object(I, o):
    cls = I.w.class_by_name(tname(o.typ)) if o.typ.kind == "obj" else None
    if cls is None:
        return
    for cname in [c.name for c in cls.mro()]:
        for attr, t in I.w.types.FIELDS.get(cname, {}).items():
            name = I.fname(cname, attr)
            inner = t.args[0] if t.kind == "opt" else t
            a = I.c.heap.get(name, arr(Ref, sort_of(inner)))
            I.c.heap.set(name, z3.Store(a, o.ref, I.c.fresh("hvf", sort_of(inner))))
            if t.kind == "opt":
                a = I.c.heap.get(name + "?none", arr(Ref, BoolS))
                I.c.heap.set(name + "?none", z3.Store(a, o.ref, I.c.fresh("hvn", BoolS)))


# ----------------------------------------------------------------------------
# loops


class LoopContract:
    def __init__(self, qualname, ordinal, invariant=(), modifies=(), lets=None, step=(), assume_iterated_untouched=False, calls=None):
        self.qualname = qualname
        self.ordinal = ordinal
        self.calls = calls  # name of a method the loop body calls: identifies the loop when loops are added before it
        self.invariant = list(invariant)
        self.modifies = list(modifies)
        self.lets = dict(lets or {})
        self.step = list(step)  # two-state clauses of one iteration (old = the iteration's start)
        self.assume_iterated_untouched = assume_iterated_untouched  # stated assumption instead of the resize obligation


def loop_ordinal(func, stmt):
    n = 0
    for node in ast.walk(func.node):
        if isinstance(node, (ast.For, ast.While, ast.AsyncFor)):
            if node is stmt:
                return n
            n += 1
    return -1


def exec_while(I, s, fr):
    """`while True:` loops: one arbitrary iteration from the loop head (listen, save_on_schedule)."""
    test = I.ev(s.test, fr)
    if test is not True:
        raise Unsupported("while loop with a non-constant condition")
    head = I.c.heap.snapshot()
    for name in stored_names(list(s.body)):
        fr.locals[name] = LOOP_CARRIED  # the iteration executed stands for every iteration: it must not read a local an earlier one left
    try:
        I.block(s.body, fr)
    except BreakSig:
        return
    except ContinueSig:
        pass
    lc = find_loop_contract(I, fr.func, loop_ordinal(fr.func, s)) if fr.func is not None else None
    if lc is not None:  # obligations of one full iteration, checked at the back edge
        env = dict(I.c.env)
        env.update(fr.locals)
        for cl in lc.step:
            check_goal(I, eval_bool(I, cl.text, env, I.c.heap, head), f"{cl.id}/iteration", cl.tag, getattr(I, "unit_name", ""))
    raise PathEnd("loop-back")


def n_loops(func):
    return sum(1 for node in ast.walk(func.node) if isinstance(node, (ast.For, ast.While, ast.AsyncFor)))


def find_loop_contract(I, func, ordn, node=None):
    """The loop contract keyed by (function, loop ordinal).  When the loop was moved into a helper that is executed inline
    (extract-function refactoring), the contract its old place in the unit's top function leaves orphaned is used for it:
    its clauses are evaluated over the unit's parameters plus the locals of the frame the loop now runs in."""
    table = dict(I.w.loops)
    table.update(getattr(I, "loop_override", {}))
    lc = table.get((func.qualname, ordn))
    loops = [n for n in ast.walk(func.node) if isinstance(n, (ast.For, ast.While, ast.AsyncFor))]
    this = loops[ordn] if 0 <= ordn < len(loops) else node  # `node`: a loop synthesized from a comprehension
    if this is node and node is not None and node not in loops:
        loops = loops + [node]

    def body_calls(loop, name):
        return any(isinstance(x, ast.Call) and isinstance(x.func, ast.Attribute) and x.func.attr == name for st in loop.body for x in ast.walk(st))
    if lc is not None and lc.calls and this is not None and not body_calls(this, lc.calls):
        lc = None  # the ordinal points at another loop now (a loop was added in front of the one the contract describes)
    if lc is None and this is not None:
        # the contract of this function whose identifying call the loop body makes, if exactly one loop makes it
        named = [v for (q, k), v in table.items() if q == func.qualname and v.calls and body_calls(this, v.calls)]
        same = [l for l in loops if named and body_calls(l, named[0].calls)]
        if len(named) == 1 and len(same) == 1:
            lc = named[0]
    if lc is not None:
        return lc
    top = getattr(I, "top", None)
    if top is not None and top is not func:
        have = n_loops(top)
        orphans = [v for (q, k), v in table.items() if q == top.qualname and k >= have]
        if len(orphans) == 1 and n_loops(func) == 1:
            I.c.note(f"loop contract of {top.qualname} relocated to {func.qualname}")
            return orphans[0]
    return None


def exec_symbolic_for(I, s, it, fr):
    """for over a heap dict: inductive invariant with the ghost set `done` (DESIGN.md §3.3)."""
    c = I.c
    func = fr.func
    ordn = loop_ordinal(func, s)
    lc = find_loop_contract(I, func, ordn, s)
    if lc is None:
        raise Unsupported(f"loop {ordn} of {func.qualname} has no invariant")
    if isinstance(it, Obj):
        d, mode = it, "dict_keys"
    else:
        d, mode = it.d, it.kind
    kt, vt = d.typ.args
    ks = sort_of(kt)
    snapdom = I.d_dom(d)  # iteration snapshot (the loop must not resize `d`: checked below)
    snapmap = I.d_map(d)
    pre = c.heap.snapshot()
    env = dict(c.env)
    env.update({k: v for k, v in fr.locals.items()})
    env["loop_dict"] = d

    def inv_goals(done_term, heap_now):
        e = dict(env)
        e["done"] = L.SetVal(done_term, kt)
        for k, text in lc.lets.items():
            e[k] = eval_spec(I, text, e, heap_now, pre)
        return [(cl, eval_bool(I, cl.text, e, heap_now, pre)) for cl in lc.invariant]

    # 1. invariant holds on entry with done = {}
    empty = z3.K(ks, z3.BoolVal(False))
    for cl, g in inv_goals(empty, c.heap):
        check_goal(I, g, f"{cl.id}/init", cl.tag, getattr(I, "unit_name", ""))
    # 2. havoc what the loop modifies, assume the invariant for an arbitrary `done`
    fs = eval_modifies(I, lc, env, pre)
    _havoc(I, fs)
    done = c.fresh("done", arr(ks, BoolS))
    kq = z3.Const("k_done", ks)
    c.assume(z3.ForAll([kq], z3.Implies(z3.Select(done, kq), z3.Select(snapdom, kq))))
    mid = c.heap.snapshot()
    for cl, g in inv_goals(done, c.heap):
        c.assume(g)
    c.wf_snaps.append(mid)
    # the iterated dict itself must be unchanged by the loop (else CPython raises RuntimeError)
    if lc.assume_iterated_untouched:
        c.assume(z3.And(I.d_dom(d) == snapdom, I.d_map(d) == snapmap))
    else:
        check_goal(I, z3.And(I.d_dom(d) == snapdom), "loop/iterated-dict-not-resized", "helper", getattr(I, "unit_name", ""))
    # 3. either the loop is finished ...
    if c.branch(done == snapdom, "loop-exit"):
        I.last_done = done
        # what the loop leaves in the locals it assigns depends on the iterations that ran: not summarised by the contract
        for name in stored_names([s.target] + list(s.body)):
            fr.locals[name] = LOOP_CARRIED
        I.block(s.orelse, fr)
        return
    # ... or take one more arbitrary iteration
    k = c.fresh("k_it", ks)
    c.assume(z3.And(z3.Select(snapdom, k), z3.Not(z3.Select(done, k))))
    I.d_elem_facts(d, k)
    kval = I.wrap(k, kt)
    vval = I.wrap(z3.Select(snapmap, k), vt)
    item = {"dict_items": (kval, vval), "dict_values": vval, "dict_keys": kval}[mode]
    for name in stored_names(list(s.body)):
        fr.locals[name] = LOOP_CARRIED  # an earlier iteration may have assigned it: the arbitrary iteration must not read it first
    I.assign(s.target, item, fr)
    I.last_done = done
    iter_start = c.heap.snapshot()
    try:
        I.block(s.body, fr)
    except ContinueSig:
        pass
    except BreakSig:
        raise Unsupported("break in a symbolic for loop")
    e_step = dict(env)
    e_step.update({k_: v_ for k_, v_ in fr.locals.items()})
    for cl in lc.step:
        check_goal(I, eval_bool(I, cl.text, e_step, c.heap, iter_start), f"{cl.id}/iteration", cl.tag, getattr(I, "unit_name", ""))
    for cl, g in inv_goals(z3.Store(done, k, z3.BoolVal(True)), c.heap):
        check_goal(I, g, f"{cl.id}/step", cl.tag, getattr(I, "unit_name", ""))
    raise PathEnd("loop-back")


def _havoc(I, fs):
    c = I.c
    for name, refs in fs.fields.items():
        a = c.heap.get(name, arr(Ref, fs.sorts[name]))
        for r, cnd in refs:
            a = z3.Store(a, r, z3.If(cnd, c.fresh("hv", fs.sorts[name]), z3.Select(a, r)))
        c.heap.set(name, a)
    for (dn, mn, dt), locs in fs.dicts.items():
        ks, vs = sort_of(dt.args[0]), sort_of(dt.args[1])
        da = c.heap.get(dn, arr(Ref, arr(ks, BoolS)))
        ma = c.heap.get(mn, arr(Ref, arr(ks, vs)))
        for d, key, cnd in locs:
            if key is None:
                da = z3.Store(da, d, z3.If(cnd, c.fresh("hvdom", arr(ks, BoolS)), z3.Select(da, d)))
                ma = z3.Store(ma, d, z3.If(cnd, c.fresh("hvmap", arr(ks, vs)), z3.Select(ma, d)))
            else:
                da = z3.Store(da, d, z3.Store(z3.Select(da, d), key, z3.If(cnd, c.fresh("hvin", BoolS), z3.Select(z3.Select(da, d), key))))
                ma = z3.Store(ma, d, z3.Store(z3.Select(ma, d), key, z3.If(cnd, c.fresh("hvv", vs), z3.Select(z3.Select(ma, d), key))))
        c.heap.set(dn, da)
        c.heap.set(mn, ma)
    for g in fs.ghost:
        if g == "*":
            continue
        c.heap.set(g, c.fresh("hvg_" + g, named_field_sort(I, g)))


def exec_async_for(I, s, it, fr):
    if isinstance(it, LibObj) and hasattr(it, "async_for"):
        return it.async_for(I, s, fr)
    raise Unsupported("async for")
