"""Native (CPython) harness used to replay counter-models against the real code and for bounded stand-ins."""
from __future__ import annotations

import asyncio
import importlib
import os
import sys


def repo_src():
    return os.path.join(os.environ.get("VERIF_REPO", "/repo"), "src")


def import_repo():
    """Import aiomysensors from the tree under verification (not from the installed copy)."""
    src = repo_src()
    if sys.path[0] != src:
        sys.path.insert(0, src)
    for m in [m for m in sys.modules if m == "aiomysensors" or m.startswith("aiomysensors.")]:
        f = getattr(sys.modules[m], "__file__", "") or ""
        if not f.startswith(src):
            del sys.modules[m]
    return importlib.import_module("aiomysensors")


def run(coro):
    return asyncio.run(coro)


def make_transport(reads=(), fail_writes=(), gateway_box=None):
    import_repo()
    from aiomysensors.transport import Transport
    from aiomysensors.exceptions import TransportFailedError

    class RecTransport(Transport):
        def __init__(self):
            self.reads = list(reads)
            self.writes = []
            self.attempts = 0
            self.fail_writes = set(fail_writes)
            self.registry_at_write = []
            self.connected = False

        async def connect(self):
            self.connected = True

        async def disconnect(self):
            self.connected = False

        async def read(self):
            if not self.reads:
                raise TransportFailedError("no more input")
            return self.reads.pop(0)

        async def write(self, decoded_message):
            i = self.attempts
            self.attempts += 1
            if i in self.fail_writes:
                raise TransportFailedError("injected write failure")
            self.writes.append(decoded_message)
            gw = gateway_box[0] if gateway_box else None
            self.registry_at_write.append(sorted(gw.nodes) if gw is not None else None)

    return RecTransport()


VERSION_STR = {"14": "1.4", "15": "1.5", "20": "2.0", "21": "2.1", "22": "2.2"}


def make_gateway(version=None, node_ids=(), reads=(), fail_writes=(), metric=True):
    """A real Gateway over a recording transport; `version` like '2.2' sets the protocol rules directly."""
    import_repo()
    from aiomysensors.gateway import Config, Gateway
    from aiomysensors.model.node import Node
    from aiomysensors.model.protocol import get_protocol
    box = []
    tr = make_transport(reads, fail_writes, box)
    gw = Gateway(tr, Config(metric=metric))
    box.append(gw)
    if version is not None:
        gw._protocol_version = version
        gw._protocol = get_protocol(version)
        gw._message_schema.set_protocol(gw._protocol)
    for n in node_ids:
        gw.nodes[n] = Node(n, 17, version or "1.4")
    return gw, tr


def handler_class(version, incoming=True):
    import_repo()
    mod = importlib.import_module("aiomysensors.model.protocol.protocol_" + version.replace(".", ""))
    return mod.IncomingMessageHandler if incoming else mod.OutgoingMessageHandler


def unit_version(unit_name):
    """'...handle_x[22]' -> '2.2'"""
    if "[" in unit_name:
        tag = unit_name.rsplit("[", 1)[1].rstrip("]")
        return VERSION_STR.get(tag)
    return None


def dict_keys(desc):
    """keys of a concretised heap dict description"""
    if not isinstance(desc, dict):
        return []
    return list(desc.get("__dict__", {}).keys())
