"""marshmallow 3.26 Schema.load / Schema.dump as an executable assumed contract (A-MM, DESIGN.md §5).

The repository's own hooks (pre_load / post_load / post_dump) and custom fields' _deserialize methods are *executed*
by the interpreter from the parsed source; only marshmallow's loop around them is modelled here.
"""
from __future__ import annotations

import z3

from .core import *  # noqa: F403
from .core import MISSING
from . import lib as L
from .interp import is_sym
from .mm import schema_fields, schema_hooks


def bind_field(lib, I, fdecl, schema_obj):
    """A declared field bound to a schema instance: gives the repo's field methods `self.context` etc."""
    fo = LibObj("mm_bound_field", decl=fdecl, schema=schema_obj)

    def attr(I2, name, fr, node, fo=fo):
        if name == "context":
            return I2.get_attr(schema_obj, "context", fr, node)
        if fdecl.fieldcls is not None:
            a, owner = fdecl.fieldcls.lookup(name)
            if isinstance(a, FuncVal):
                return BoundMethod(a, fo)
        return MISSING
    fo.attr = attr
    return fo


def run_validators(I, fdecl, value):
    for v in fdecl.validators:
        if isinstance(v, LibObj) and v.kind == "mm_range":
            v.call(I, [value], {}, None, None)
        elif isinstance(v, LibObj) and v.kind == "mm_oneof":
            ts = [I.as_bool(I.eq_term(value, c)) for c in v.choices]
            if not I.c.branch(z3.Or(*ts) if ts else False, "oneof-ok"):
                I.raise_(getattr(v, "bad_exc", None) or "ValidationError")
        elif isinstance(v, LibObj) and v.kind == "mm_length":
            if not I.c.branch(length_ok(I, v, value), "length-ok"):
                I.raise_(getattr(v, "bad_exc", None) or "ValidationError")
        else:
            raise Unsupported(f"validator {v!r}")


def length_ok(I, v, value):
    """validate.Length on a string value: min <= len <= max, or len == equal."""
    from .interp import is_sym
    if isinstance(value, str):
        n = z3.IntVal(len(value))
    elif is_sym(value, "str"):
        n = z3.Length(value.term)
    else:
        raise Unsupported("Length validator on a value that is not a string")
    conds = []
    if v.equal is not None:
        conds.append(n == v.equal)
    if v.min is not None:
        conds.append(n >= v.min)
    if v.max is not None:
        conds.append(n <= v.max)
    return z3.simplify(z3.And(*conds)) if conds else z3.BoolVal(True)


def deserialize(lib, I, fdecl, schema_obj, value, name, data, node):
    """Field.deserialize: None check, _deserialize, validators.  Raises ValidationError via RaiseSig."""
    if value is None:
        I.raise_("ValidationError")  # "Field may not be null."
    ft = fdecl.ftype
    if ft == "custom":
        de, owner = fdecl.fieldcls.lookup("_deserialize")
        if not isinstance(de, FuncVal):
            raise Unsupported("custom field without _deserialize")
        out = I.call(BoundMethod(de, bind_field(lib, I, fdecl, schema_obj)), [value, name, data], {}, None, node)
    elif ft in ("Int", "Integer"):
        if isinstance(value, bool):
            I.raise_("ValidationError")
        try:
            out = lib.b_int(I, [value], {})
        except RaiseSig as r:
            if r.exc.cls.name in ("ValueError", "TypeError", "OverflowError"):
                I.raise_("ValidationError")
            raise
    elif ft in ("Str", "String"):
        if not (isinstance(value, str) or is_sym(value, "str")):
            I.raise_("ValidationError")
        out = value
    else:
        from . import mmjson
        out = mmjson.deserialize_json_field(lib, I, fdecl, schema_obj, value, node)
    run_validators(I, fdecl, out)
    return out


def schema_load(lib, I, schema_obj, cls, args, kwargs, node):
    data = args[0]
    for hook in schema_hooks(cls, "pre_load"):
        data = I.call(BoundMethod(hook, schema_obj), [data], {}, None, node)
    if not isinstance(data, dict):
        from . import mmjson
        return mmjson.schema_load_json(lib, I, schema_obj, cls, data, node)
    fields = schema_fields(cls)
    result = {}
    invalid = False
    for name, fdecl in fields:
        if name not in data:
            if fdecl.required:
                invalid = True  # "Missing data for required field."
            continue
        try:
            result[name] = deserialize(lib, I, fdecl, schema_obj, data[name], name, data, node)
        except RaiseSig as r:
            if r.exc.cls.name == "ValidationError":
                invalid = True  # collected; marshmallow goes on with the next field
                continue
            raise  # any other exception leaves Schema.load at once (A-MM)
    known = {n for n, _ in fields}
    if any(k not in known for k in data):
        invalid = True  # unknown=RAISE
    if invalid:
        I.raise_("ValidationError", site=node)
    out = result
    for hook in schema_hooks(cls, "post_load"):
        out = I.call(BoundMethod(hook, schema_obj), [out], {}, None, node)
    return out


def schema_dump(lib, I, schema_obj, cls, args, kwargs, node):
    obj = args[0]
    fields = schema_fields(cls)
    data = {}
    if isinstance(obj, Obj) and obj.typ.kind == "obj" and I.w.class_by_name(tname(obj.typ)) is not None:
        from . import mmjson
        r = mmjson.dump_object(lib, I, schema_obj, cls, obj, fields, node)
        if isinstance(r, Sym):
            return r
        if r is not MISSING:
            data = r
        else:
            for name, fdecl in fields:
                decl, t = I.field_decl(tname(obj.typ), name)
                if t is None:
                    continue  # attribute missing: key omitted
                v = I.read_field(obj, name)
                if fdecl.ftype in ("Int", "Integer"):
                    v = lib.b_int(I, [v], {}) if v is not None else None
                elif fdecl.ftype in ("Str", "String"):
                    v = lib.to_str(I, v) if v is not None else None
                data[name] = v
    # an object without the declared attributes (e.g. a str passed to send): every key is omitted
    out = data
    for hook in schema_hooks(cls, "post_dump"):
        out = I.call(BoundMethod(hook, schema_obj), [out], {}, None, node)
    return out
