"""Symbolic interpreter over the repository's AST (DESIGN.md §3.3)."""
from __future__ import annotations

import ast

import z3

from .core import *  # noqa: F401,F403
from .core import (_k3acc, MISSING)


class SpecOpt:
    """Spec-mode value of an Optional field: (is_none term, payload value)."""

    def __init__(self, isnone, value):
        self.isnone = isnone
        self.value = value


def is_sym(v, kind=None):
    return isinstance(v, Sym) and (kind is None or v.kind == kind)


class Interp:
    def __init__(self, world, ctx):
        self.w = world
        self.c = ctx
        self.lib = world.lib
        self.top = None  # FuncVal currently verified against its own contract
        self.use_contracts = True
        self.contract_filter = None  # callable(qualname)->bool, which callees use contracts
        self.await_hook = None  # callable(interp, site) run before every await (interference/cancel)
        self.call_depth = 0
        self.ghost_hooks = {}  # (qualname, 'after_call', ordinal) -> callable
        self.events = []
        self.n_awaits = 0  # suspension points passed on this path
        self.read_at = {}  # field name -> n_awaits at its latest read (atomicity obligations)
        self.stores = []  # (dict type name, n_awaits) for every store into a heap dict

    # ------------------------------------------------------------------ heap
    def hget(self, name, sort, heap=None):
        return (heap or self.c.heap).get(name, sort)

    def alive(self, heap=None):
        return self.hget("alive", arr(Ref, BoolS), heap)

    def alloc(self, typ, note="new"):
        r = self.c.fresh(f"new:{tname(typ)}", Ref)  # "new:": allocation order is part of the path, the name is shared by aligned runs
        al = self.alive()
        self.c.assume(z3.Not(z3.Select(al, r)))
        # distinct from every WF snapshot's alive set as well (allocation is monotone)
        for h in self.c.wf_snaps:
            self.c.assume(z3.Not(z3.Select(self.alive(h), r)))
        self.c.heap.set("alive", z3.Store(al, r, z3.BoolVal(True)))
        o = Obj(r, typ)
        self.c.allocs.append((r, typ))
        if typ.kind == "dict":
            dn = self.dom_name(typ)
            ks = sort_of(typ.args[0])
            self.c.heap.set(dn, z3.Store(self.hget(dn, arr(Ref, arr(ks, BoolS))), r, z3.K(ks, z3.BoolVal(False))))
        return o

    def field_decl(self, cname, attr):
        cls = self.w.class_by_name(cname)
        names = [c.name for c in cls.mro()] if cls is not None else [cname]
        for n in names:
            t = self.w.types.FIELDS.get(n, {}).get(attr)
            if t is not None:
                return n, t
        return None, None

    def wrap(self, term, t, fr=None):
        k = t.kind
        if k in ("int", "bool", "str"):
            return self.mk(term, k)
        if k == "json":
            if fr is not None and fr.spec:
                return Sym(term, k)
            from . import mmjson
            return mmjson.LazyJson(term)
        if k in ("float", "key3", "bytes"):
            return Sym(term, k)
        if k in ("obj", "dict", "opaque"):
            return Obj(term, t)
        if k == "set":
            from .lib import SetVal
            return SetVal(term, t.args[0])
        if k == "proto":
            if fr is not None and fr.spec:
                return Sym(term, "int")
            mods = self.w.protocol_modules()
            i = self.c.choose([term == j for j in range(len(mods) - 1)], "proto")
            self.c.assume(z3.And(term >= 0, term < len(mods)))
            return mods[i]
        if k == "enum":
            if fr is not None and fr.spec:
                return Sym(term, "int")
            members = self.w.enum_members_of(t.args[0])
            i = self.c.choose([term == j for j in range(len(members) - 1)], "enum")
            self.c.assume(z3.And(term >= 0, term < len(members)))
            return members[i]
        raise Unsupported(f"wrap {t}")

    def to_term(self, v, t):
        k = t.kind
        if k == "opt":
            return self.to_term(v, t.args[0])
        if k == "int":
            if isinstance(v, bool):
                return z3.IntVal(int(v))
            if isinstance(v, int):
                return z3.IntVal(v)
            if isinstance(v, EnumMember):
                return z3.IntVal(v.value)
            if is_sym(v, "int"):
                return v.term
            if is_sym(v, "bool"):
                return z3.If(v.term, z3.IntVal(1), z3.IntVal(0))
        elif k == "bool":
            if isinstance(v, bool):
                return z3.BoolVal(v)
            if is_sym(v, "bool"):
                return v.term
        elif k == "str":
            if isinstance(v, str):
                return z3.StringVal(v)
            if is_sym(v, "str"):
                return v.term
        elif k == "json":
            from . import mmjson
            return mmjson.to_json_term(self, v)
        elif k in ("float", "bytes"):
            if is_sym(v, k):
                return v.term
            if k == "bytes" and isinstance(v, bytes):
                return self.lib.bytes_const(self, v)
        elif k == "key3":
            if isinstance(v, tuple) and len(v) == 3:
                return mkKey3(*[self.to_term(x, TInt) for x in v])
            if is_sym(v, "key3"):
                return v.term
        elif k in ("obj", "dict", "opaque"):
            if isinstance(v, Obj):
                return v.ref
            if isinstance(v, FuncVal) and k == "opaque":
                r = self.alloc(t)
                self.c.__dict__.setdefault("stored_callables", {})[str(r.ref)] = v
                return r.ref
            if isinstance(v, ExcObj) and k == "opaque":
                # an exception instance stored in the heap: a fresh opaque object that remembers whether it is a TransportError
                from . import models
                r = self.alloc(TOpaque("Exception"))
                te = self.lib.exc_class("TransportError")
                self.c.assume(models.exc_is_transport_error(r.ref) == z3.BoolVal(v.cls.is_subclass_of(te)))
                return r.ref
        elif k == "proto":
            if isinstance(v, ModuleVal):
                return z3.IntVal(self.w.protocol_modules().index(v))
            if is_sym(v, "int"):
                return v.term
        elif k == "enum":
            if isinstance(v, EnumMember):
                return z3.IntVal(self.w.enum_members_of(t.args[0]).index(v))
            if is_sym(v, "int"):
                return v.term
        raise Unsupported(f"cannot store {v!r} as {t}")

    def fname(self, decl, attr):
        return f"{decl}.{attr}"

    def read_field(self, obj, attr, fr=None):
        decl, t = self.field_decl(tname(obj.typ), attr)
        if t is None:
            raise Unsupported(f"no field {tname(obj.typ)}.{attr}")
        spec = fr is not None and fr.spec
        heap = fr.heap if spec and fr.heap is not None else self.c.heap
        name = self.fname(decl, attr)
        inner = t.args[0] if t.kind == "opt" else t
        if t.kind == "opt":
            isn = z3.Select(self.hget(name + "?none", arr(Ref, BoolS), heap), obj.ref)
            if spec:
                val = z3.Select(self.hget(name, arr(Ref, sort_of(inner)), heap), obj.ref)
                return SpecOpt(isn, self.wrap(val, inner, fr))
            if self.c.branch(isn, f"{attr}-is-None"):
                return None
        term = z3.Select(self.hget(name, arr(Ref, sort_of(inner)), heap), obj.ref)
        if not spec:
            self.read_at[name] = self.n_awaits
        if inner.kind in ("obj", "dict", "opaque"):
            self.closed_fact(name, obj.ref, inner)  # also at reads made by contract clauses: the fact is about the WF snapshots
        return self.wrap(term, inner, fr)

    def closed_fact(self, name, oref, t):
        # heap closedness, instantiated at this read for every WF snapshot
        for h in self.c.wf_snaps:
            al = self.alive(h)
            f = self.hget(name, arr(Ref, Ref), h)
            self.c.assume(z3.Implies(z3.Select(al, oref), z3.Select(al, z3.Select(f, oref))))

    def write_field(self, obj, attr, v):
        decl, t = self.field_decl(tname(obj.typ), attr)
        if t is None:
            raise Unsupported(f"no field {tname(obj.typ)}.{attr} (write)")
        name = self.fname(decl, attr)
        inner_t = t.args[0] if t.kind == "opt" else t
        if inner_t.kind == "dict" and ((isinstance(v, dict) and not v) or
                                       (isinstance(v, LibObj) and v.kind == "local_dict" and v.heap is None and not v.py)):
            v = self.alloc(inner_t)  # `{}` stored into a dict-typed field: a fresh empty heap dict
        if t.kind == "opt":
            nn = name + "?none"
            a = self.hget(nn, arr(Ref, BoolS))
            self.c.heap.set(nn, z3.Store(a, obj.ref, z3.BoolVal(v is None)))
            if v is None:
                return
            t = t.args[0]
        a = self.hget(name, arr(Ref, sort_of(t)))
        self.c.heap.set(name, z3.Store(a, obj.ref, self.to_term(v, t)))

    # ------------------------------------------------------------------ dicts
    def dom_name(self, dt):
        return f"dom[{tname(dt.args[0])},{tname(dt.args[1])}]"

    def map_name(self, dt):
        return f"map[{tname(dt.args[0])},{tname(dt.args[1])}]"

    def d_dom(self, d, heap=None):
        ks = sort_of(d.typ.args[0])
        return z3.Select(self.hget(self.dom_name(d.typ), arr(Ref, arr(ks, BoolS)), heap), d.ref)

    def d_map(self, d, heap=None):
        ks, vs = sort_of(d.typ.args[0]), sort_of(d.typ.args[1])
        return z3.Select(self.hget(self.map_name(d.typ), arr(Ref, arr(ks, vs)), heap), d.ref)

    def d_set_dom(self, d, newdom):
        ks = sort_of(d.typ.args[0])
        n = self.dom_name(d.typ)
        self.c.heap.set(n, z3.Store(self.hget(n, arr(Ref, arr(ks, BoolS))), d.ref, newdom))

    def d_set_map(self, d, newmap):
        ks, vs = sort_of(d.typ.args[0]), sort_of(d.typ.args[1])
        n = self.map_name(d.typ)
        self.c.heap.set(n, z3.Store(self.hget(n, arr(Ref, arr(ks, vs))), d.ref, newmap))

    def d_contains(self, d, k, heap=None):
        return z3.Select(self.d_dom(d, heap), self.to_term(k, d.typ.args[0]))

    def d_elem_facts(self, d, kterm):
        vt = d.typ.args[1]
        for h in self.c.wf_snaps:
            al = self.alive(h)
            dom = self.d_dom(d, h)
            mp = self.d_map(d, h)
            v = z3.Select(mp, kterm)
            facts = []
            if vt.kind in ("obj", "dict", "opaque"):
                facts.append(z3.Select(al, v))
            facts += self.w.types.elem_inv(self, h, d.typ, kterm, v)
            if facts:
                self.c.assume(z3.Implies(z3.And(z3.Select(al, d.ref), z3.Select(dom, kterm)), z3.And(*facts)))

    def d_getitem(self, d, k, fr=None, site=None):
        kt = self.to_term(k, d.typ.args[0])
        spec = fr is not None and fr.spec
        heap = fr.heap if spec and fr.heap is not None else None
        if not spec:
            if not self.c.branch(z3.Select(self.d_dom(d), kt), "key-in-dict"):
                raise RaiseSig(self.make_exc("KeyError", site=site))
            self.d_elem_facts(d, kt)
        return self.wrap(z3.Select(self.d_map(d, heap), kt), d.typ.args[1], fr)

    def d_get(self, d, k, default=None):
        kt = self.to_term(k, d.typ.args[0])
        if not self.c.branch(z3.Select(self.d_dom(d), kt), "get-hit"):
            return default
        self.d_elem_facts(d, kt)
        return self.wrap(z3.Select(self.d_map(d), kt), d.typ.args[1])

    def d_setitem(self, d, k, v):
        self.stores.append((tname(d.typ), self.n_awaits, dict(self.read_at)))
        kt = self.to_term(k, d.typ.args[0])
        self.d_set_dom(d, z3.Store(self.d_dom(d), kt, z3.BoolVal(True)))
        self.d_set_map(d, z3.Store(self.d_map(d), kt, self.to_term(v, d.typ.args[1])))

    def d_pop(self, d, k, default=MISSING, site=None):
        kt = self.to_term(k, d.typ.args[0])
        if not self.c.branch(z3.Select(self.d_dom(d), kt), "pop-hit"):
            if default is MISSING:
                raise RaiseSig(self.make_exc("KeyError", site=site))
            return default
        self.d_elem_facts(d, kt)
        v = self.wrap(z3.Select(self.d_map(d), kt), d.typ.args[1])
        self.d_set_dom(d, z3.Store(self.d_dom(d), kt, z3.BoolVal(False)))
        return v

    def d_nonempty(self, d, heap=None):
        ks = sort_of(d.typ.args[0])
        return self.d_dom(d, heap) != z3.K(ks, z3.BoolVal(False))

    # ------------------------------------------------------------------ exceptions
    def make_exc(self, name, args=(), site=None):
        cls = self.lib.exc_class(name)
        e = ExcObj(cls, args)
        e.site = site
        return e

    def raise_(self, name, site=None, args=()):
        raise RaiseSig(self.make_exc(name, args, site))

    def exc_matches(self, exc, cls):
        if isinstance(cls, tuple):
            return any(self.exc_matches(exc, c) for c in cls)
        if isinstance(cls, ExternalName):
            cls = self.lib.exc_class(cls.dotted.rsplit(".", 1)[-1])
        if not isinstance(cls, ClassVal):
            raise Unsupported(f"except clause on {cls!r}")
        return exc.cls.is_subclass_of(cls)

    # ------------------------------------------------------------------ truthiness / coercions
    def truthy(self, v):
        v = self.force(v)
        if v is None:
            return False
        if isinstance(v, (bool, int, str, tuple, list, dict, set, bytes, frozenset)):
            return bool(v)
        if isinstance(v, Sym):
            if v.kind == "bool":
                return v.term
            if v.kind == "int":
                return v.term != 0
            if v.kind == "str":
                return z3.Length(v.term) > 0
            return self.lib.truthy_sym(self, v)
        if isinstance(v, Obj):
            if v.typ.kind == "dict":
                return self.d_nonempty(v)
            return True
        if isinstance(v, EnumMember):
            return bool(v.value)
        if isinstance(v, SpecOpt):
            return z3.And(z3.Not(v.isnone), self.as_bool(self.truthy(v.value)))
        if isinstance(v, LibObj) and hasattr(v, "truthy"):
            return v.truthy(self)
        return True

    def as_bool(self, b):
        return z3.BoolVal(b) if isinstance(b, bool) else b

    def test(self, v, note="cond"):
        return self.c.branch(self.truthy(v), note)

    def intv(self, v):
        """value -> python int or z3 int term, or None if not an int-like."""
        if isinstance(v, bool):
            return int(v)
        if isinstance(v, int):
            return v
        if isinstance(v, EnumMember):
            return v.value
        if is_sym(v, "int"):
            return v.term
        if is_sym(v, "bool"):
            return z3.If(v.term, z3.IntVal(1), z3.IntVal(0))
        return None

    def mk(self, x, kind):
        """python value or z3 term -> value."""
        if isinstance(x, z3.ExprRef):
            x = z3.simplify(x)
            if kind == "int" and z3.is_int_value(x):
                return x.as_long()
            if kind == "bool" and (z3.is_true(x) or z3.is_false(x)):
                return z3.is_true(x)
            if kind == "str" and z3.is_string_value(x):
                return x.as_string()
            return Sym(x, kind)
        return x

    # ------------------------------------------------------------------ expressions
    def ev(self, n, fr):
        m = getattr(self, "ev_" + type(n).__name__, None)
        if m is None:
            raise Unsupported(f"expression {type(n).__name__} at line {getattr(n, 'lineno', '?')}")
        return m(n, fr)

    def ev_Constant(self, n, fr):
        return n.value

    def lookup(self, name, fr):
        f = fr
        while f is not None:
            if name in f.locals:
                if f.locals[name] is LOOP_CARRIED:
                    raise Unsupported(f"local {name} is read after a summarised loop that assigns it")
                return unpoisoned(f.locals[name])
            f = f.parent
        if name in fr.globals:
            return unpoisoned(fr.globals[name])
        b = self.lib.builtins.get(name)
        if b is not None:
            return b
        # a name the compiler made a local of the running function (it is assigned somewhere in its body) and that no executed
        # statement has bound yet: Python raises UnboundLocalError (NameError for a free variable of an enclosing function)
        f, inner = fr, True
        while f is not None and not fr.spec:
            if isinstance(f.func, FuncVal):
                if name in function_locals(f.func):
                    raise RaiseSig(self.make_exc("UnboundLocalError" if inner else "NameError"))
                inner = False
            f = f.parent
        raise Unsupported(f"unbound name {name}")

    def ev_Name(self, n, fr):
        return self.lookup(n.id, fr)

    def ev_Tuple(self, n, fr):
        return tuple(self.ev(e, fr) for e in n.elts)

    def ev_List(self, n, fr):
        return [self.ev(e, fr) for e in n.elts]

    def ev_Set(self, n, fr):
        return self.lib.make_set(self, [self.ev(e, fr) for e in n.elts])

    def ev_Dict(self, n, fr):
        d = {}
        for k, v in zip(n.keys, n.values):
            if k is None:
                d.update(self.ev(v, fr))
            else:
                kk = self.ev(k, fr)
                if isinstance(kk, (Sym, Obj)):
                    raise Unsupported("dict display with symbolic key")
                d[kk] = self.ev(v, fr)
        return self.lib.make_dict(self, d)

    def ev_JoinedStr(self, n, fr):
        parts = []
        for p in n.values:
            if isinstance(p, ast.Constant):
                parts.append(p.value)
            else:
                if p.format_spec is not None or p.conversion not in (-1, ord("r"), ord("s")):
                    raise Unsupported("f-string field with a format specification or an !a conversion")
                v = self.ev(p.value, fr)
                if p.conversion == ord("r"):
                    parts.append(self.lib.opaque_str(self, "repr"))
                else:
                    parts.append(self.lib.to_str(self, v))
        return self.lib.concat(self, parts)

    def ev_IfExp(self, n, fr):
        if fr.spec:
            t = self.as_bool(self.truthy(self.ev(n.test, fr)))
            a, b = self.ev(n.body, fr), self.ev(n.orelse, fr)
            return self.lib.ite(self, t, a, b)
        if self.test(self.ev(n.test, fr), "ifexp"):
            return self.ev(n.body, fr)
        return self.ev(n.orelse, fr)

    def ev_BoolOp(self, n, fr):
        is_and = isinstance(n.op, ast.And)
        if fr.spec:
            ts = [self.as_bool(self.truthy(self.ev(v, fr))) for v in n.values]
            return self.mk(z3.And(*ts) if is_and else z3.Or(*ts), "bool")
        v = None
        for i, e in enumerate(n.values):
            v = self.ev(e, fr)
            if i == len(n.values) - 1:
                return v
            t = self.test(v, "and" if is_and else "or")
            if is_and and not t:
                return v
            if not is_and and t:
                return v
        return v

    def ev_UnaryOp(self, n, fr):
        v = self.ev(n.operand, fr)
        if isinstance(n.op, ast.Not):
            t = self.truthy(v)
            return (not t) if isinstance(t, bool) else self.mk(z3.Not(t), "bool")
        if isinstance(n.op, ast.USub):
            i = self.intv(v)
            if i is None:
                raise Unsupported("unary minus on non-int")
            return self.mk(-i, "int")
        raise Unsupported("unary op")

    def ev_BinOp(self, n, fr):
        a, b = self.ev(n.left, fr), self.ev(n.right, fr)
        return self.binop(n.op, a, b)

    def binop(self, op, a, b):
        ia, ib = self.intv(a), self.intv(b)
        if ia is not None and ib is not None:
            if isinstance(op, ast.Add):
                return self.mk(ia + ib, "int")
            if isinstance(op, ast.Sub):
                return self.mk(ia - ib, "int")
            if isinstance(op, ast.Mult):
                return self.mk(ia * ib, "int")
        if isinstance(op, ast.Add) and (isinstance(a, str) or is_sym(a, "str")) and (isinstance(b, str) or is_sym(b, "str")):
            return self.lib.concat(self, [a, b])
        if isinstance(op, ast.Add) and isinstance(a, (list, tuple)) and isinstance(b, type(a)):
            return a + b
        if isinstance(op, ast.BitOr):
            return self.lib.bitor(self, a, b)
        raise Unsupported(f"binop {type(op).__name__} on {a!r},{b!r}")

    def ev_Compare(self, n, fr):
        left = self.ev(n.left, fr)
        res = None
        for op, rn in zip(n.ops, n.comparators):
            right = self.ev(rn, fr)
            r = self.compare(op, left, right, fr)
            if res is None:
                res = r
            else:
                a, b = self.as_bool(self.truthy(res)), self.as_bool(self.truthy(r))
                res = self.mk(z3.And(a, b), "bool")
            left = right
        return res

    def eq_term(self, a, b, fr=None):
        """Python == as python bool or z3 Bool."""
        if isinstance(a, SpecOpt) or isinstance(b, SpecOpt):
            if a is None:
                return b.isnone
            if b is None:
                return a.isnone
            if isinstance(a, SpecOpt) and isinstance(b, SpecOpt):
                return z3.And(a.isnone == b.isnone, z3.Or(a.isnone, self.as_bool(self.eq_term(a.value, b.value))))
            o, x = (a, b) if isinstance(a, SpecOpt) else (b, a)
            return z3.And(z3.Not(o.isnone), self.as_bool(self.eq_term(o.value, x)))
        if a is None or b is None:
            return a is None and b is None
        ia, ib = self.intv(a), self.intv(b)
        if ia is not None and ib is not None:
            r = ia == ib
            return r if isinstance(r, bool) else z3.simplify(r)
        if (isinstance(a, str) or is_sym(a, "str")) and (isinstance(b, str) or is_sym(b, "str")):
            if isinstance(a, str) and isinstance(b, str):
                return a == b
            return self.to_term(a, TStr) == self.to_term(b, TStr)
        if isinstance(a, Obj) and isinstance(b, Obj):
            return a.ref == b.ref
        if isinstance(a, Sym) and isinstance(b, Sym) and a.kind == b.kind:
            return a.term == b.term
        if (is_sym(a, "key3") and isinstance(b, tuple)) or (is_sym(b, "key3") and isinstance(a, tuple)):
            return self.to_term(a, TKey3) == self.to_term(b, TKey3)
        if isinstance(a, tuple) and isinstance(b, tuple):
            if len(a) != len(b):
                return False
            ts = [self.as_bool(self.eq_term(x, y)) for x, y in zip(a, b)]
            return z3.simplify(z3.And(*ts)) if ts else True
        if isinstance(a, (Sym, Obj)) or isinstance(b, (Sym, Obj)):
            # different kinds (e.g. str vs int) are never equal in Python
            ka = a.kind if isinstance(a, Sym) else type(a).__name__
            kb = b.kind if isinstance(b, Sym) else type(b).__name__
            if {ka, kb} <= {"int", "bool"}:
                raise Unsupported("int/bool eq")
            return False
        return a is b or (type(a) is type(b) and not isinstance(a, (FuncVal, ClassVal, ModuleVal)) and a == b)

    def compare(self, op, a, b, fr):
        if isinstance(op, (ast.Eq, ast.NotEq)):
            r = self.eq_term(a, b, fr)
            if isinstance(op, ast.NotEq):
                r = (not r) if isinstance(r, bool) else z3.Not(r)
            return self.mk(r, "bool")
        if isinstance(op, (ast.Is, ast.IsNot)):
            for x, y in ((a, b), (b, a)):
                if isinstance(x, LibObj) and x.kind == "lazy_json" and y is None:
                    r = x.is_none(self)
                    return (not r) if isinstance(op, ast.IsNot) else r
            a, b = self.force(a), self.force(b)
            if a is None or b is None or isinstance(a, (bool,)) or isinstance(b, (bool,)):
                if isinstance(a, SpecOpt):
                    r = a.isnone
                elif isinstance(b, SpecOpt):
                    r = b.isnone
                else:
                    r = a is b
            elif isinstance(a, Obj) and isinstance(b, Obj):
                r = a.ref == b.ref
            elif isinstance(a, SpecOpt) or isinstance(b, SpecOpt):
                r = self.eq_term(a, b)
            elif isinstance(a, Sym) and isinstance(b, Sym) and fr.spec:
                r = a.term == b.term
            elif isinstance(a, (Sym,)) or isinstance(b, (Sym,)):
                raise Unsupported("identity comparison of symbolic scalars")
            else:
                r = a is b
            if isinstance(op, ast.IsNot):
                r = (not r) if isinstance(r, bool) else z3.Not(r)
            return self.mk(r, "bool")
        if isinstance(op, (ast.Lt, ast.LtE, ast.Gt, ast.GtE)):
            ia, ib = self.intv(a), self.intv(b)
            if ia is None or ib is None:
                return self.lib.order_compare(self, op, a, b)
            r = {ast.Lt: lambda: ia < ib, ast.LtE: lambda: ia <= ib, ast.Gt: lambda: ia > ib, ast.GtE: lambda: ia >= ib}[type(op)]()
            return self.mk(r, "bool")
        if isinstance(op, (ast.In, ast.NotIn)):
            r = self.contains(b, a, fr)
            if isinstance(op, ast.NotIn):
                r = (not r) if isinstance(r, bool) else z3.Not(r)
            return self.mk(r, "bool")
        raise Unsupported("compare op")

    @staticmethod
    def has_symbolic_part(x):
        if isinstance(x, (Sym, Obj)):
            return True
        if isinstance(x, (tuple, list)):
            return any(Interp.has_symbolic_part(e) for e in x)
        return False

    def contains(self, cont, x, fr):
        cont = self.force(cont)
        if isinstance(cont, LibObj) and cont.kind == "local_dict" and cont.heap is not None:
            cont = cont.heap
        if isinstance(cont, Obj) and cont.typ.kind == "dict":
            heap = fr.heap if fr.spec and fr.heap is not None else None
            if not fr.spec:
                self.d_elem_facts(cont, self.to_term(x, cont.typ.args[0]))
            return self.d_contains(cont, x, heap)
        if isinstance(cont, (tuple, list, set, frozenset)):
            ts = [self.as_bool(self.eq_term(x, e)) for e in cont]
            return z3.simplify(z3.Or(*ts)) if ts else False
        if isinstance(cont, dict):
            if self.has_symbolic_part(x):
                # a key with symbolic parts (a Sym, or a tuple holding one) is compared structurally with every stored key:
                # Python's own hashing of the interpreter's value objects would say "absent" for every symbolic key
                ts = [self.as_bool(self.eq_term(x, e)) for e in cont]
                return z3.simplify(z3.Or(*ts)) if ts else False
            return x in cont
        return self.lib.contains(self, cont, x, fr)

    def ev_Attribute(self, n, fr):
        v = self.ev(n.value, fr)
        return self.get_attr(v, n.attr, fr, n)

    def force(self, v):
        if isinstance(v, LibObj) and v.kind == "lazy_json":
            return v.force(self)
        return v

    def get_attr(self, v, name, fr, node=None):
        v = self.force(v)
        if isinstance(v, SpecOpt):
            v = v.value  # spec mode: attribute of an optional value (meaningful under a not-None guard)
        if isinstance(v, ModuleVal):
            if v.external:
                return self.lib.external_name(f"{v.name}.{name}")
            if name in v.ns:
                return unpoisoned(v.ns[name])
            raise RaiseSig(self.make_exc("AttributeError", site=node))
        if isinstance(v, ExternalName):
            return self.lib.ext_attr(self, v, name)
        if isinstance(v, ClassVal):
            if v.enum_members is not None and name in v.enum_members:
                return v.enum_members[name]
            a, owner = v.lookup(name)
            if owner is None:
                if name == "__name__":
                    return v.name
                raise RaiseSig(self.make_exc("AttributeError", site=node))
            if isinstance(a, ClassMethodVal):
                return BoundMethod(a.func, v)
            if isinstance(a, StaticMethodVal):
                return a.func
            return a
        if isinstance(v, SuperProxy):
            start = v.selfv if isinstance(v.selfv, ClassVal) else self.class_of(v.selfv)
            a, owner = start.lookup(name, after=v.cls)
            if owner is None:
                return self.lib.super_fallback(self, v, name)
            if isinstance(a, ClassMethodVal):
                return BoundMethod(a.func, start)
            if isinstance(a, FuncVal):
                return BoundMethod(a, v.selfv)
            return a
        if isinstance(v, Obj):
            return self.obj_attr(v, name, fr, node)
        if isinstance(v, ExcObj):
            if name in v.attrs:
                return v.attrs[name]
            if name == "args":
                return v.args
            a, owner = v.cls.lookup(name)
            if isinstance(a, FuncVal):
                return BoundMethod(a, v)
            r = self.lib.exc_attr(self, v, name)
            if r is not MISSING:
                return r
            raise RaiseSig(self.make_exc("AttributeError", site=node))
        if isinstance(v, EnumMember):
            if name == "name":
                return v.name
            if name == "value":
                return v.value
        if isinstance(v, PropertyVal) and name == "setter":
            return Builtin("property.setter", lambda I, a, k, v=v: v.setter(a[0]))
        if v is None:
            raise RaiseSig(self.make_exc("AttributeError", site=node))
        return self.lib.value_attr(self, v, name, fr, node)

    def class_of(self, v):
        if isinstance(v, Obj):
            return self.w.class_by_name(tname(v.typ))
        if isinstance(v, ExcObj):
            return v.cls
        return None

    def obj_attr(self, o, name, fr, node=None):
        cls = self.w.class_by_name(tname(o.typ)) if o.typ.kind == "obj" else None
        if cls is not None:
            a, owner = cls.lookup(name)
            if isinstance(a, PropertyVal):
                if fr.spec:
                    raise Unsupported("property in spec expression; use the field")
                return self.call(a.fget, [o], {}, fr, node)
            decl, t = self.field_decl(cls.name, name)
            if t is not None:
                return self.read_field(o, name, fr)
            if owner is not None:
                if isinstance(a, FuncVal):
                    return BoundMethod(a, o)
                if isinstance(a, ClassMethodVal):
                    return BoundMethod(a.func, cls)
                if isinstance(a, StaticMethodVal):
                    return a.func
                return a
        r = self.lib.obj_attr(self, o, name, fr, node)
        if r is MISSING:
            if cls is not None and name in self.declared_instance_attrs(cls):
                # the source declares it, the sidecar type table does not know it: outside the verified subset, not an AttributeError
                raise Unsupported(f"field {cls.name}.{name} is declared in the source but missing from the sidecar type table (contracts/types.py)")
            raise RaiseSig(self.make_exc("AttributeError", site=node))
        return r

    def declared_instance_attrs(self, cls):
        """Instance attribute names the source of the class (and its repository bases) declares: dataclass fields,
        annotated class-level names, and `self.x = ...` / `self.x: T = ...` stores in its methods."""
        cache = self.w.__dict__.setdefault("_declared_attrs", {})
        if cls.qualname not in cache:
            names = set()
            for c in cls.mro():
                for fname, *_ in getattr(c, "dc_fields", []) or []:
                    names.add(fname)
                for v in c.ns.values():
                    f = v.func if isinstance(v, (ClassMethodVal, StaticMethodVal)) else (v.fget if isinstance(v, PropertyVal) else v)
                    node = getattr(f, "node", None)
                    if node is None:
                        continue
                    for x in ast.walk(node):
                        if isinstance(x, ast.Attribute) and isinstance(x.ctx, ast.Store) and isinstance(x.value, ast.Name) and x.value.id == "self":
                            names.add(x.attr)
            cache[cls.qualname] = names
        return cache[cls.qualname]

    def ev_Subscript(self, n, fr):
        v = self.ev(n.value, fr)
        if isinstance(n.slice, ast.Slice):
            lo = self.ev(n.slice.lower, fr) if n.slice.lower else None
            hi = self.ev(n.slice.upper, fr) if n.slice.upper else None
            return self.lib.slice(self, v, lo, hi)
        k = self.ev(n.slice, fr)
        return self.getitem(v, k, fr, n)

    def getitem(self, v, k, fr, node=None):
        v = self.force(v)
        if isinstance(v, Obj) and v.typ.kind == "dict":
            return self.d_getitem(v, k, fr, node)
        if isinstance(v, dict):
            if self.has_symbolic_part(k):
                for key in list(v):
                    if self.c.branch(self.as_bool(self.eq_term(k, key)), "dict-key"):
                        return v[key]
                raise RaiseSig(self.make_exc("KeyError", site=node))
            if k not in v:
                raise RaiseSig(self.make_exc("KeyError", site=node))
            return v[k]
        if isinstance(v, (list, tuple)):
            if isinstance(k, int):
                if -len(v) <= k < len(v):
                    return v[k]
                raise RaiseSig(self.make_exc("IndexError", site=node))
        if v is None or isinstance(v, (int, bool)) or is_sym(v, "int") or is_sym(v, "bool"):
            raise RaiseSig(self.make_exc("TypeError", site=node))
        if (isinstance(v, str) or is_sym(v, "str")) and (isinstance(k, str) or is_sym(k, "str")):
            raise RaiseSig(self.make_exc("TypeError", site=node))  # string indices must be integers
        return self.lib.getitem(self, v, k, fr, node)

    def ev_Await(self, n, fr):
        v = self.ev(n.value, fr)
        return self.do_await(v, fr, n)

    def do_await(self, v, fr, node=None):
        self.n_awaits += 1
        if self.await_hook is not None:
            self.awaiting = v
            self.await_hook(self, node, fr)
        if isinstance(v, CoroVal):
            if v.runner is not None:
                return v.runner(self)
            return self.run_function(v.func, v.args, v.kwargs, fr, node)
        return self.lib.await_value(self, v, fr, node)

    def ev_Call(self, n, fr):
        if isinstance(n.func, ast.Name):
            if fr.spec and n.func.id in self.w.spec.SPEC_FORMS:
                return self.w.spec.SPEC_FORMS[n.func.id](self, n, fr)
            if n.func.id == "super" and not n.args:
                f0 = fr
                while f0 is not None and f0.func is None:
                    f0 = f0.parent
                if f0 is None or f0.func.cls is None:
                    raise Unsupported("super() outside a method")
                first = f0.func.node.args.args[0].arg
                return SuperProxy(f0.func.cls, self.lookup(first, fr))
        f = self.ev(n.func, fr)
        args = []
        for a in n.args:
            if isinstance(a, ast.Starred):
                args.extend(self.lib.iterate(self, self.ev(a.value, fr)))
            else:
                args.append(self.ev(a, fr))
        kwargs = {}
        for kw in n.keywords:
            if kw.arg is None:
                m = self.ev(kw.value, fr)
                if isinstance(m, LibObj) and m.kind == "local_dict" and m.heap is None:
                    m = m.py
                if not isinstance(m, dict):
                    raise Unsupported("** of non-concrete mapping")
                kwargs.update(m)
            else:
                kwargs[kw.arg] = self.ev(kw.value, fr)
        return self.call(f, args, kwargs, fr, n)

    def call(self, f, args, kwargs, fr, node=None):
        if isinstance(f, BoundMethod):
            return self.call(f.func, [f.selfv] + list(args), kwargs, fr, node)
        if isinstance(f, FuncVal):
            if fr is not None and fr.spec:
                raise Unsupported("call of repository function in spec expression")
            if f.is_async:
                return CoroVal(f, list(args), dict(kwargs))
            if f.is_gen:
                raise Unsupported("generator call")
            if f.marks.get("cached"):
                for v in list(args) + list(kwargs.values()):
                    if not (v is None or isinstance(v, (str, ClassVal)) or (isinstance(v, Sym) and v.kind == "str")):
                        raise Unsupported(f"{f.qualname} is wrapped in functools.cache, which keys its arguments by == and hash: only str, None and "
                                          f"class arguments are modelled as 'same key = same argument' (got {type(v).__name__})")
            return self.run_function(f, args, kwargs, fr, node)
        if isinstance(f, Builtin):
            return f.fn(self, list(args), kwargs)
        if isinstance(f, ClassVal):
            return self.instantiate(f, args, kwargs, fr, node)
        if isinstance(f, (ExternalName, LibObj)):
            return self.lib.call_external(self, f, args, kwargs, fr, node)
        if isinstance(f, Obj) and f.typ.kind == "opaque" and tname(f.typ) in getattr(self.lib, "opaque_calls", {}):
            return self.lib.opaque_calls[tname(f.typ)](self, f, args, kwargs, fr, node)
        if isinstance(f, FuncVal.__mro__[0]) and False:
            pass
        if f is None:
            raise RaiseSig(self.make_exc("TypeError", site=node))
        if callable(f) and fr is not None and fr.spec:
            return f(self, fr, *args, **kwargs)
        raise Unsupported(f"call of {f!r}")

    def bind(self, f, args, kwargs):
        a = f.node.args
        params = [p.arg for p in a.posonlyargs + a.args]
        loc = {}
        args = list(args)
        if len(args) > len(params) and a.vararg is None:
            raise RaiseSig(self.make_exc("TypeError"))
        for p, v in zip(params, args):
            loc[p] = v
        if a.vararg is not None:
            loc[a.vararg.arg] = tuple(args[len(params):])
        kwargs = dict(kwargs)
        nd = len(f.defaults)
        for i, p in enumerate(params):
            if p in loc:
                if p in kwargs:
                    raise RaiseSig(self.make_exc("TypeError"))
                continue
            if p in kwargs:
                loc[p] = kwargs.pop(p)
            elif i >= len(params) - nd:
                loc[p] = f.defaults[i - (len(params) - nd)]
            else:
                raise RaiseSig(self.make_exc("TypeError"))
        for p, d in zip(a.kwonlyargs, f.kwdefaults):
            if p.arg in kwargs:
                loc[p.arg] = kwargs.pop(p.arg)
            elif d is not MISSING:
                loc[p.arg] = d
            else:
                raise RaiseSig(self.make_exc("TypeError"))
        if a.kwarg is not None:
            loc[a.kwarg.arg] = kwargs
        elif kwargs:
            raise RaiseSig(self.make_exc("TypeError"))
        return loc

    def run_function(self, f, args, kwargs, fr, node=None):
        ct = self.w.contracts.get(f.qualname) if self.use_contracts else None
        if callable(ct) and not hasattr(ct, "qualname"):
            ct = ct(self, f, args, kwargs)  # contract selected by the shape of the actual arguments
        if isinstance(ct, dict):  # receiver-dependent contract (handlers: one per protocol version)
            recv = args[0] if args and isinstance(args[0], ClassVal) else None
            ct = ct.get(recv.module.rsplit("_", 1)[-1]) if recv is not None else None
        if ct is not None and f is not self.top and (self.contract_filter is None or self.contract_filter(f.qualname)):
            return self.w.spec.apply_contract(self, ct, f, args, kwargs, fr, node)
        return self.run_body(f, args, kwargs)

    def run_body(self, f, args, kwargs):
        loc = self.bind(f, args, kwargs)
        nf = Frame(f, self.w.modules[f.module].ns, f.closure)
        nf.locals = loc
        self.call_depth += 1
        if self.call_depth > 60:
            raise Unsupported("call depth")
        try:
            self.block(f.node.body, nf)
        except ReturnSig as r:
            return r.value
        finally:
            self.call_depth -= 1
        return None

    def instantiate(self, cls, args, kwargs, fr, node=None):
        if cls.enum_members is not None:
            return self.enum_call(cls, args[0], node)
        if cls.is_exception():
            e = ExcObj(cls, args)
            e.site = node
            init, owner = cls.lookup("__init__")
            if isinstance(init, FuncVal):
                self.run_function(init, [e] + list(args), kwargs, fr, node)
            return e
        r = self.lib.instantiate(self, cls, args, kwargs, fr, node)
        if r is not MISSING:
            return r
        o = self.alloc(TObj(cls.name))
        if cls.is_dataclass:
            self.dataclass_init(cls, o, args, kwargs)
            return o
        init, owner = cls.lookup("__init__")
        if isinstance(init, FuncVal):
            self.run_function(init, [o] + list(args), kwargs, fr, node)
        elif args or kwargs:
            raise RaiseSig(self.make_exc("TypeError", site=node))
        return o

    def dataclass_init(self, cls, o, args, kwargs):
        flds = []
        for c in reversed(cls.mro()):
            for f in c.dc_fields:
                flds = [x for x in flds if x[0] != f[0]] + [f]
        kwargs = dict(kwargs)
        args = list(args)
        for name, default, factory, init in flds:
            if init and args:
                v = args.pop(0)
            elif init and name in kwargs:
                v = kwargs.pop(name)
            elif factory is not MISSING:
                v = self.call(factory, [], {}, None)
            elif default is not MISSING:
                v = default
            else:
                raise RaiseSig(self.make_exc("TypeError"))
            self.write_field(o, name, v)
        if args or kwargs:
            raise RaiseSig(self.make_exc("TypeError"))

    def enum_call(self, cls, v, node=None):
        if isinstance(v, EnumMember):
            v = v.value
        if isinstance(v, int):
            m = cls.enum_canon.get(v)
            if m is None:
                raise RaiseSig(self.make_exc("ValueError", site=node))
            return m
        if is_sym(v, "int"):
            vals = sorted(cls.enum_canon)
            i = self.c.choose([v.term == x for x in vals], f"{cls.name}()")
            if i == len(vals):
                raise RaiseSig(self.make_exc("ValueError", site=node))
            return cls.enum_canon[vals[i]]
        raise RaiseSig(self.make_exc("ValueError", site=node))

    def ev_NamedExpr(self, n, fr):
        v = self.ev(n.value, fr)
        f = fr
        while getattr(f, "is_comp", False) and f.parent is not None:
            f = f.parent
        self.assign(n.target, v, f)
        return v

    def ev_Lambda(self, n, fr):
        fn = ast.FunctionDef(name="<lambda>", args=n.args, body=[ast.Return(value=n.body)], decorator_list=[], lineno=n.lineno, col_offset=0)
        return FuncVal(fn, (fr.func.qualname if fr.func else "") + ".<lambda>", fr.func.module if fr.func else "?", fr, [], [], None)

    def comp_iter(self, gens, fr, body):
        """Run nested comprehension generators over concrete iterables, calling body(frame)."""
        if not gens:
            body(fr)
            return
        g = gens[0]
        it = self.ev(g.iter, fr)
        for x in self.lib.iterate(self, it):
            self.assign(g.target, x, fr)
            if all(self.test(self.ev(c, fr), "comp-if") for c in g.ifs):
                self.comp_iter(gens[1:], fr, body)

    def comp_frame(self, fr):
        nf = Frame(fr.func, fr.globals, fr)
        nf.spec, nf.heap = fr.spec, fr.heap
        return nf

    def ev_ListComp(self, n, fr):
        out = []
        self.comp_iter(n.generators, self.comp_frame(fr), lambda f: out.append(self.ev(n.elt, f)))
        return out

    def ev_SetComp(self, n, fr):
        out = []
        self.comp_iter(n.generators, self.comp_frame(fr), lambda f: out.append(self.ev(n.elt, f)))
        return self.lib.make_set(self, out)

    def ev_GeneratorExp(self, n, fr):
        if fr.spec:
            return self.ev_ListComp(n, fr)
        nf = self.comp_frame(fr)

        def gen():
            if len(n.generators) != 1:
                raise Unsupported("nested generator expression")
            g = n.generators[0]
            for x in self.lib.iterate(self, self.ev(g.iter, nf)):
                self.assign(g.target, x, nf)
                if all(self.test(self.ev(c, nf), "gen-if") for c in g.ifs):
                    yield self.ev(n.elt, nf)
        return gen()

    def ev_DictComp(self, n, fr):
        r = self.lib.dictcomp(self, n, fr)
        if r is not MISSING:
            return r
        out = {}
        def body(f):
            k = self.ev(n.key, f)
            if isinstance(k, (Sym, Obj)):
                raise Unsupported("dict comprehension with symbolic key")
            out[k] = self.ev(n.value, f)
        self.comp_iter(n.generators, self.comp_frame(fr), body)
        return out

    # ------------------------------------------------------------------ statements
    def block(self, stmts, fr):
        for s in stmts:
            self.ex(s, fr)

    def ex(self, s, fr):
        m = getattr(self, "ex_" + type(s).__name__, None)
        if m is None:
            raise Unsupported(f"statement {type(s).__name__} at line {s.lineno}")
        return m(s, fr)

    def ex_Expr(self, s, fr):
        if isinstance(s.value, ast.Constant):
            return
        if isinstance(s.value, (ast.Yield,)):
            v = self.ev(s.value.value, fr) if s.value.value else None
            raise PathEnd("yield", v)
        self.ev(s.value, fr)

    def ex_Pass(self, s, fr):
        pass

    def comprehension_as_loop(self, s, fr):
        """`D = {K: V for T in X [if C]}` over a symbolic dict whose shape the comprehension model does not cover (V is a call, K
        an attribute of the element ...) is executed as the loop `D = {}; for T in X: [if C:] D[K] = V`, so that the loop contract
        written for the hand-written form of the same loop applies."""
        if not (isinstance(s.value, ast.DictComp) and len(s.targets) == 1 and isinstance(s.targets[0], ast.Name)
                and len(s.value.generators) == 1 and not s.value.generators[0].is_async):
            return False
        comp, g, name = s.value, s.value.generators[0], s.targets[0].id
        simple = (isinstance(comp.key, ast.Name) and isinstance(comp.value, ast.Name))
        if simple:
            return False  # the comprehension model's own shape
        probe = self.ev(g.iter, fr)
        if not self.lib.is_symbolic_iterable(self, probe):
            return False
        store = ast.Assign(targets=[ast.Subscript(value=ast.Name(id=name, ctx=ast.Load()), slice=comp.key, ctx=ast.Store())], value=comp.value)
        body = [store]
        for c in reversed(g.ifs):
            body = [ast.If(test=c, body=body, orelse=[])]
        loop = ast.For(target=g.target, iter=g.iter, body=body, orelse=[])
        empty = ast.Assign(targets=[ast.Name(id=name, ctx=ast.Store())], value=ast.Dict(keys=[], values=[]))
        for n in (store, loop, empty):
            ast.copy_location(n, s)
            ast.fix_missing_locations(n)
        self.ex_Assign(empty, fr)
        self.w.spec.exec_symbolic_for(self, loop, probe, fr)
        return True

    def ex_Assign(self, s, fr):
        if self.comprehension_as_loop(s, fr):
            return
        v = self.definition_value(s.value, fr, s.targets)
        if isinstance(v, LibObj) and v.kind == "local_dict" and v.heap is None and not v.py and fr.func is not None \
                and len(s.targets) == 1 and isinstance(s.targets[0], ast.Name):
            lt = getattr(self.w.types, "LOCALS", {}).get((fr.func.qualname, s.targets[0].id))
            top = getattr(self, "top", None)
            if lt is None and top is not None and top is not fr.func:
                # a helper extracted from the unit's function keeps the declared type of the local it took along
                lt = getattr(self.w.types, "LOCALS", {}).get((top.qualname, s.targets[0].id))
            if lt is not None:
                v.heap = self.alloc(lt)  # a local `{}` whose declared use is a symbolically keyed dict (A-TYPES)
        for t in s.targets:
            self.assign(t, v, fr)

    def ex_AnnAssign(self, s, fr):
        if s.value is not None:
            self.assign(s.target, self.definition_value(s.value, fr, [s.target]), fr)

    def definition_value(self, expr, fr, targets):
        """The value of an assignment.  At module or class level (executed once, when the source is loaded) a defining expression
        outside the subset does not stop the run: the name is bound to a Poison, and only the functions that use it are outside
        the subset (their units fall back to the bounded stand-in)."""
        if fr.func is not None or fr.spec or not all(isinstance(t, ast.Name) for t in targets):
            return self.ev(expr, fr)
        try:
            return self.ev(expr, fr)
        except Unsupported as e:
            return Poison(f"{targets[0].id} is defined by an expression outside the subset ({e})")

    def ex_AugAssign(self, s, fr):
        cur = self.ev(s.target, fr)
        self.assign(s.target, self.binop(s.op, cur, self.ev(s.value, fr)), fr)

    def assign(self, t, v, fr):
        if isinstance(t, ast.Name):
            fr.locals[t.id] = v
        elif isinstance(t, (ast.Tuple, ast.List)):
            if isinstance(v, LibObj) and hasattr(v, "unpack"):
                items = v.unpack(self, len(t.elts), t)
            else:
                items = self.lib.iterate(self, v) if not isinstance(v, (tuple, list)) else list(v)
            if len(items) != len(t.elts):
                raise RaiseSig(self.make_exc("ValueError", site=t))
            for e, x in zip(t.elts, items):
                self.assign(e, x, fr)
        elif isinstance(t, ast.Attribute):
            o = self.ev(t.value, fr)
            self.set_attr(o, t.attr, v, fr, t)
        elif isinstance(t, ast.Subscript):
            o = self.ev(t.value, fr)
            k = self.ev(t.slice, fr)
            self.setitem(o, k, v, fr, t)
        else:
            raise Unsupported("assignment target")

    def set_attr(self, o, name, v, fr, node=None):
        if isinstance(o, Obj):
            cls = self.w.class_by_name(tname(o.typ)) if o.typ.kind == "obj" else None
            if cls is not None:
                a, owner = cls.lookup(name)
                if isinstance(a, PropertyVal):
                    if a.fset is None:
                        raise RaiseSig(self.make_exc("AttributeError", site=node))
                    self.call(a.fset, [o, v], {}, fr, node)
                    return
            self.write_field(o, name, v)
            return
        if isinstance(o, ExcObj):
            o.attrs[name] = v
            return
        if isinstance(o, FuncVal):
            o.marks[name] = v
            return
        if o is None:
            raise RaiseSig(self.make_exc("AttributeError", site=node))
        self.lib.set_attr(self, o, name, v, fr, node)

    def setitem(self, o, k, v, fr, node=None):
        o = self.force(o)
        if isinstance(o, Obj) and o.typ.kind == "dict":
            self.d_setitem(o, k, v)
            return
        if isinstance(o, dict):
            self.w.check_not_shared(o, "item assignment")
            if self.has_symbolic_part(k):
                raise Unsupported("symbolic key store into concrete dict")
            o[k] = v
            return
        if isinstance(o, LibObj) and o.kind == "local_dict":
            self.w.check_not_shared(o, "item assignment")
        if o is None or isinstance(o, (int, bool, str)) or is_sym(o):
            raise RaiseSig(self.make_exc("TypeError", site=node))
        self.lib.setitem(self, o, k, v, fr, node)

    def ex_Return(self, s, fr):
        raise ReturnSig(self.ev(s.value, fr) if s.value is not None else None)

    def ex_Raise(self, s, fr):
        if s.exc is None:
            if not fr.exc_stack:
                raise Unsupported("bare raise outside handler")
            raise RaiseSig(fr.exc_stack[-1])
        e = self.ev(s.exc, fr)
        if isinstance(e, ClassVal):
            e = self.instantiate(e, [], {}, fr, s)
        if isinstance(e, Obj) and e.typ.kind == "opaque" and tname(e.typ) == "Exception":
            from . import models
            is_te = self.c.branch(models.exc_is_transport_error(e.ref), "stored-exception-is-transport-error")
            e = self.make_exc("TransportError" if is_te else "Exception", site=s)
        if not isinstance(e, ExcObj):
            raise Unsupported(f"raise of {e!r}")
        if s.cause is not None:
            e.cause = self.ev(s.cause, fr)
        if e.site is None:
            e.site = s
        raise RaiseSig(e)

    def ex_If(self, s, fr):
        if self.test(self.ev(s.test, fr), f"if@{s.lineno}"):
            self.block(s.body, fr)
        else:
            self.block(s.orelse, fr)

    def ex_Break(self, s, fr):
        raise BreakSig()

    def ex_Continue(self, s, fr):
        raise ContinueSig()

    def ex_While(self, s, fr):
        self.w.spec.exec_while(self, s, fr)

    PURE_NODES = (ast.Name, ast.Attribute, ast.Compare, ast.BoolOp, ast.UnaryOp, ast.Constant, ast.Load, ast.And, ast.Or, ast.Not,
                  ast.Eq, ast.NotEq, ast.Lt, ast.LtE, ast.Gt, ast.GtE, ast.Is, ast.IsNot, ast.In, ast.NotIn, ast.Tuple)

    def as_dict_comprehension(self, s, fr):
        """`for T in X: [if C:] D[K] = V` filling a local dict D that is still empty is the comprehension
        `D = {K: V for T in X [if C]}` when C, K and V are side-effect free (names, attributes, comparisons).  Returns
        (name of D, the DictComp node) or None.  Lets a loop written out by hand share the comprehension's model."""
        if s.orelse or len(s.body) != 1:
            return None
        st, test = s.body[0], None
        if isinstance(st, ast.If):
            if st.orelse or len(st.body) != 1:
                return None
            st, test = st.body[0], st.test
        if not (isinstance(st, ast.Assign) and len(st.targets) == 1 and isinstance(st.targets[0], ast.Subscript)
                and isinstance(st.targets[0].value, ast.Name)):
            return None
        name = st.targets[0].value.id
        d = fr.locals.get(name)
        if not (isinstance(d, LibObj) and d.kind == "local_dict" and d.heap is None and not d.py and not getattr(d, "shared", False)):
            return None
        for e in [x for x in (test, st.targets[0].slice, st.value) if x is not None]:
            if not all(isinstance(n, self.PURE_NODES) for n in ast.walk(e)):
                return None
        comp = ast.DictComp(key=st.targets[0].slice, value=st.value,
                            generators=[ast.comprehension(target=s.target, iter=s.iter, ifs=[test] if test is not None else [], is_async=0)])
        return name, ast.copy_location(comp, s)

    def ex_For(self, s, fr):
        dc = self.as_dict_comprehension(s, fr)
        if dc is not None:
            name, comp = dc
            try:
                fr.locals[name] = self.ev_DictComp(comp, fr)
                return
            except Unsupported:
                pass  # not a shape the comprehension model knows: treat it as the loop it is
        it = self.ev(s.iter, fr)
        if self.lib.is_symbolic_iterable(self, it):
            self.w.spec.exec_symbolic_for(self, s, it, fr)
            return
        try:
            for x in self.lib.iterate(self, it):
                self.assign(s.target, x, fr)
                try:
                    self.block(s.body, fr)
                except ContinueSig:
                    continue
        except BreakSig:
            return
        self.block(s.orelse, fr)

    def ex_AsyncFor(self, s, fr):
        it = self.ev(s.iter, fr)
        self.w.spec.exec_async_for(self, s, it, fr)

    def ex_Try(self, s, fr):
        try:
            try:
                self.block(s.body, fr)
            except RaiseSig as r:
                h = None
                for cand in s.handlers:
                    if cand.type is None or self.exc_matches(r.exc, self.ev(cand.type, fr)):
                        h = cand
                        break
                if h is None:
                    raise
                if h.name:
                    fr.locals[h.name] = r.exc
                fr.exc_stack.append(r.exc)
                try:
                    self.block(h.body, fr)
                finally:
                    fr.exc_stack.pop()
            else:
                self.block(s.orelse, fr)
        except (RaiseSig, ReturnSig, BreakSig, ContinueSig):
            if s.finalbody:
                self.block(s.finalbody, fr)  # may replace the in-flight signal
            raise
        else:
            self.block(s.finalbody, fr)

    def ex_With(self, s, fr, is_async=False):
        if len(s.items) != 1:
            raise Unsupported("multi-item with")
        item = s.items[0]
        cm = self.ev(item.context_expr, fr)
        val = self.lib.cm_enter(self, cm, fr, is_async, s)
        if item.optional_vars is not None:
            self.assign(item.optional_vars, val, fr)
        try:
            self.block(s.body, fr)
        except RaiseSig as r:
            if self.lib.cm_exit(self, cm, r.exc, fr, is_async, s):
                return
            raise
        except (ReturnSig, BreakSig, ContinueSig):
            self.lib.cm_exit(self, cm, None, fr, is_async, s)
            raise
        self.lib.cm_exit(self, cm, None, fr, is_async, s)

    def ex_AsyncWith(self, s, fr):
        self.ex_With(s, fr, is_async=True)

    def ex_FunctionDef(self, s, fr):
        self.define(s.name, fr, lambda: self.w.make_function(self, s, fr, None))

    ex_AsyncFunctionDef = ex_FunctionDef

    def define(self, name, fr, make):
        """def / class at module or class level: a definition outside the subset (a decorator or default without a model, a class
        body that cannot be evaluated) poisons the name instead of stopping the run (see definition_value)."""
        if fr.func is not None or fr.spec:
            fr.locals[name] = make()
            return
        try:
            fr.locals[name] = make()
        except Unsupported as e:
            fr.locals[name] = Poison(f"{name} is defined outside the subset ({e})")

    def ex_Import(self, s, fr):
        self.w.exec_import(self, s, fr)

    def ex_ImportFrom(self, s, fr):
        self.w.exec_import(self, s, fr)

    def ex_ClassDef(self, s, fr):
        self.define(s.name, fr, lambda: self.w.make_class(self, s, fr))

    def ex_Assert(self, s, fr):
        pass

    def ex_Global(self, s, fr):
        raise Unsupported("global")

    def ex_Delete(self, s, fr):
        raise Unsupported("del")
