"""Runs the verification units of a property, classifies obligations, writes evidence (DESIGN.md §6, §9)."""
from __future__ import annotations

import hashlib
import json
import multiprocessing as mp
import os
import subprocess
import sys
import tempfile
import time
import traceback

VERIF = os.path.dirname(os.path.dirname(os.path.abspath(__file__)))
EVDIR = os.environ.get("VERIF_EVIDENCE_DIR", "evidence")  # matrix runs over seeded trees write elsewhere

EXIT_OK, EXIT_VIOLATION, EXIT_UNDECIDED, EXIT_ENGINE = 0, 1, 2, 3

from .core import Unsupported, Poison  # noqa: E402


class Unit:
    def __init__(self, name, qualname, contract, receiver=None, setup=None, no_contract_for=(), max_paths=4000, case=()):
        self.name = name
        self.qualname = qualname
        self.contract = contract
        self.receiver = receiver  # ClassVal or None
        self.setup = setup
        self.no_contract_for = tuple(no_contract_for)  # callees to inline instead of using their contract
        self.max_paths = max_paths
        self.case = tuple(case)  # one arm of an exhaustive case split (extra pre-state assumptions)
        self.drop_clauses = frozenset()  # (callee qualname, clause id): clauses of callee contracts that may not be assumed at call sites
        self.relational = None  # (contract, receiver, tag_a, tag_b, confirm): compare this unit's function under a second receiver


_W = None
_UNITS = None


def _run_one(i):
    from . import spec
    u = _UNITS[i]
    t0 = time.time()
    try:
        f = _W.func(u.qualname)

        def setup(I, u=u):
            if u.no_contract_for:
                I.contract_filter = lambda q, u=u: q not in u.no_contract_for
            I.drop_clauses = u.drop_clauses
            if u.setup:
                u.setup(I)
        if u.relational:
            from . import relational
            ctb, rb, ta, tb, confirm = u.relational[:5]
            extra = u.relational[5] if len(u.relational) > 5 else {}
            obs, st = relational.compare(_W, f, (u.contract, u.receiver, ta), (ctb, rb, tb), u.case, confirm, **extra)
            return i, obs, st, None
        obs, st = spec.verify_unit(_W, f, u.contract, receiver=u.receiver, unit_name=u.name, setup=setup, max_paths=u.max_paths, case=u.case)
        out = []
        for o in obs:
            d = o.as_dict()
            if o.status == "unknown" and getattr(o, "smt2", None):
                d["smt2"] = o.smt2
            if getattr(o, "xcheck", None):
                d["xcheck"] = o.xcheck
            out.append(d)
        return i, out, st, None
    except Exception:  # noqa: BLE001
        return i, [], {"unit": u.name, "secs": time.time() - t0}, traceback.format_exc()


def run_units(world, units, jobs=None):
    global _W, _UNITS
    _W, _UNITS = world, units
    jobs = jobs or min(int(os.environ.get("VERIF_JOBS", "16") or 16), max(1, len(units)))  # VERIF_JOBS: fewer workers when several checks share the machine
    results = [None] * len(units)
    if jobs == 1 or len(units) == 1:
        for i in range(len(units)):
            results[i] = _run_one(i)
    else:
        ctx = mp.get_context("fork")
        with ctx.Pool(jobs) as pool:
            for r in pool.imap_unordered(_run_one, range(len(units))):
                results[r[0]] = r
    return results


def cvc5_decide(smt2, timeout_s=20):
    """Second back end for obligations z3 left unknown: z3's SMT-LIB export through the cvc5 CLI."""
    with tempfile.NamedTemporaryFile("w", suffix=".smt2", delete=False) as f:
        f.write("(set-logic ALL)\n" + smt2 + "\n(check-sat)\n" if "(check-sat)" not in smt2 else "(set-logic ALL)\n" + smt2)
        path = f.name
    try:
        p = subprocess.run(["/usr/bin/cvc5", "--strings-exp", f"--tlimit={timeout_s * 1000}", path], capture_output=True, text=True, timeout=timeout_s + 5)
        out = p.stdout.strip().splitlines()
        ans = out[0] if out else "unknown"
    except Exception:  # noqa: BLE001
        ans = "unknown"
    finally:
        os.unlink(path)
    return ans if ans in ("sat", "unsat") else "unknown"


def load_known_findings():
    p = os.path.join(VERIF, "known_findings.json")
    if not os.path.exists(p):
        return {"findings": [], "fixed": []}
    with open(p) as f:
        return json.load(f)


def matched_skip(kf, prop, ob):
    for fd in kf.get("findings", []):
        if finding_matches(fd, prop, ob):
            return fd
    return None


def site_of(ob):
    """Witness class of a failing obligation: clause id + unit (function[version]) — no line numbers, no solver numbers."""
    return f"{ob['name']}|{ob['unit']}"


def finding_matches(fd, prop, ob):
    if fd.get("property") != prop:
        return False
    if fd.get("obligation") != ob["name"]:
        return False
    units = fd.get("units")
    if units and ob["unit"] not in units:
        return False
    return True


class Report:
    def __init__(self, prop, tier, seed):
        self.prop = prop
        self.tier = tier
        self.seed = seed
        self.t0 = time.time()
        self.lines = []
        self.exit = EXIT_OK
        self.violations = 0

    def say(self, s):
        print(s, flush=True)
        self.lines.append(s)

    def bump(self, code):
        # precedence: engine(3) > violation(1) > undecided(2) > ok
        order = {EXIT_OK: 0, EXIT_UNDECIDED: 1, EXIT_VIOLATION: 2, EXIT_ENGINE: 3}
        if order[code] > order[self.exit]:
            self.exit = code


def check_property(mod, world, tier="quick", seed=0):
    """mod: props.Cxx module. Returns exit code; writes evidence/<id>.json."""
    prop = mod.PROP
    rep = Report(prop, tier, seed)
    os.makedirs(os.path.join(VERIF, EVDIR, "replays"), exist_ok=True)
    build_unsupported = None
    try:
        units = mod.build(world)
    except Unsupported as e:
        # the contracts of this property cannot even be instantiated on this source (a table they are derived from is defined
        # outside the subset): the whole check is outside the subset, the bounded stand-in decides
        units, build_unsupported = [], str(e)
    if not units and not getattr(mod, "extra_checks", None) and build_unsupported is None:
        rep.say(f"ENGINE-ERROR property={prop}: no verification units")
        rep.bump(EXIT_ENGINE)
    results = run_units(world, units)
    obligs, stats, crashes = [], [], []
    if build_unsupported is not None:
        crashes.append(("build", "unsupported: " + build_unsupported))
    for i, obs, st, err in results:
        stats.append(st)
        if err:
            crashes.append((units[i].name, err))
        if st.get("unsupported"):
            crashes.append((units[i].name, "unsupported: " + st["unsupported"]))
        obligs.extend(obs)
    # extra (non-unit) obligations: table checks, lemmas over contracts, dispatch structure
    extra = getattr(mod, "extra_checks", None)
    if extra:
        try:
            obligs.extend(extra(world))
        except Unsupported as e:
            # a table or declaration the structural obligations read is outside the subset: undecided here, the bounded stand-in decides
            crashes.append(("extra_checks", "unsupported: " + str(e)))
        except Exception:  # noqa: BLE001
            crashes.append(("extra_checks", traceback.format_exc()))
    # outcome coverage of case-split units: every outcome of the contract must be reached in at least one arm of the split
    groups = {}
    for u, st in zip(units, stats):
        if u.case:
            gname = u.name[: u.name.rfind("[")]
            gset = groups.setdefault(gname, {"wanted": set(), "seen": set(), "partial": False})
            if "unsupported" in st or st.get("relational"):
                gset["partial"] = True  # an arm outside the subset: what the group covers is unknown
                continue
            gset["wanted"] |= set(st.get("wanted", []))
            for k in st.get("outcomes", {}):
                gset["seen"].add(k)
    units_with_failures = {o["unit"] for o in obligs if o.get("status") == "sat" and o.get("tag") in ("property", "helper")}
    for gname, gset in groups.items():
        if gset["partial"] or any(u.startswith(gname + "[") for u in units_with_failures):
            continue  # (a failing obligation in an arm already says what happened to the outcome that is not reached)
        for k in sorted(gset["wanted"]):
            hit = k in gset["seen"] or (k == "normal" and "yield" in gset["seen"]) or any(s_.startswith("raise:") and k.startswith("raise:") and
                                           world.lib.exc_class(s_[6:]).is_subclass_of(world.lib.exc_class(k[6:])) for s_ in gset["seen"])
            if not hit:
                obligs.append({"name": f"cover/{k}", "tag": "cover", "status": "uncovered", "secs": 0.0, "backend": "z3", "unit": gname + "[all arms]", "path": [], "model": None})
    unsupported_units = []
    for name, err in crashes:
        if err.startswith("unsupported: ") and hasattr(mod, "bounded_search"):
            unsupported_units.append((name, err))
            continue
        rep.say(f"ENGINE-ERROR property={prop} unit={name}: {err.strip().splitlines()[-1]}")
        sys.stderr.write(err + "\n")
        rep.bump(EXIT_ENGINE)
    # a unit outside the supported subset has no deductive verdict: bounded native search stands in (never counted as proved)
    bs_cache = {}
    reported_bounded = {}
    for name, err in unsupported_units:
        rep.say(f"UNSUPPORTED unit={name}: {err} -- falling back to the bounded native search")
        try:
            from . import native as _native
            ck = _native.unit_version(name.split("][")[0] + "]") if "[" in name else None  # the search depends on the unit's version only
            if ck not in bs_cache:
                bs_cache[ck] = mod.bounded_search(world, name)
            fails = bs_cache[ck]
        except Exception:  # noqa: BLE001
            rep.say(f"ENGINE-ERROR property={prop}: bounded search crashed: {traceback.format_exc().strip().splitlines()[-1]}")
            sys.stderr.write(traceback.format_exc())
            rep.bump(EXIT_ENGINE)
            continue
        if fails:
            kf0 = load_known_findings()
            seen_cl = set()
            for fl in fails:
                if fl["clause"] in seen_cl:
                    continue
                seen_cl.add(fl["clause"])
                ob = {"name": fl["clause"], "unit": name}
                if any(finding_matches(fd, prop, ob) for fd in kf0.get("findings", [])):
                    rep.say(f"KNOWN-FINDING: property={prop} {fl['clause']} in {name} (bounded search)")
                    continue
                sig = (fl["clause"], json.dumps({k: v for k, v in fl.items() if k != "clause"}, sort_keys=True, default=str))
                if sig in reported_bounded:
                    reported_bounded[sig] += 1  # the same failing input stands for every unit that is outside the subset
                    continue
                reported_bounded[sig] = 0
                fname = f"{prop}-bounded-{hashlib.sha1((fl['clause'] + name).encode()).hexdigest()[:10]}.json"
                path = os.path.join(EVDIR, "replays", fname)
                with open(os.path.join(VERIF, path), "w") as f:
                    json.dump({"property": prop, "obligation": fl["clause"], "unit": name, "verdict": "bounded native search (unit outside the deductive subset: " + err + ")", "native_replay": fl}, f, indent=1, default=str)
                rep.violations += 1
                rep.say(f"VIOLATION property={prop} replay={path} obligation={fl['clause']} unit={name} (found by the bounded stand-in; unit unsupported deductively)")
                rep.bump(EXIT_VIOLATION)
        else:
            rep.say(f"UNDECIDED property={prop} unit={name}: outside the deductive subset and the bounded search found no failing input")
            rep.bump(EXIT_UNDECIDED)

    # thorough tier: cross-solver check of a sample of discharged obligations (a disagreement is an engine error)
    xres = {"checked": 0, "agree": 0, "cvc5_unknown": 0, "disagree": []}
    for ob in obligs:
        x = ob.pop("xcheck", None)
        if x:
            ans = cvc5_decide(x, timeout_s=15)
            xres["checked"] += 1
            if ans == "unsat":
                xres["agree"] += 1
            elif ans == "unknown":
                xres["cvc5_unknown"] += 1
            else:
                xres["disagree"].append(ob["name"] + "|" + ob["unit"])
    if xres["disagree"]:
        rep.say(f"ENGINE-ERROR property={prop}: z3 discharged but cvc5 refutes: {xres['disagree'][:3]}")
        rep.bump(EXIT_ENGINE)
    # second back end for unknowns
    by_backend = {"z3": {"count": 0, "secs": 0.0}, "cvc5": {"count": 0, "secs": 0.0}}
    unk = [ob for ob in obligs if ob["status"] == "unknown" and ob.get("smt2")]
    if unk:
        # all of them in parallel; at most 64 (a flood of unknowns is a path explosion, which the second solver will not cure)
        from concurrent.futures import ThreadPoolExecutor
        t0 = time.time()
        with ThreadPoolExecutor(max_workers=16) as ex:
            answers = list(ex.map(lambda ob: cvc5_decide(ob["smt2"]), unk[:64]))
        for ob, ans in zip(unk[:64], answers):
            ob["secs"] += (time.time() - t0) / max(1, len(answers))
            if ans != "unknown":
                ob["status"], ob["backend"] = ans, "cvc5"
    for ob in obligs:
        ob.pop("smt2", None)
        b = by_backend.setdefault(ob.get("backend", "z3"), {"count": 0, "secs": 0.0})
        b["count"] += 1
        b["secs"] = round(b["secs"] + ob["secs"], 3)

    # a clause is a *property* obligation of this check iff its id names this property (ids like C06+C10/...)
    own = {prop} | set(getattr(mod, "ALSO_PROPERTY", ()))

    def retag(o):
        if o["tag"] in ("property", "helper"):
            o["tag"] = "property" if own & set(o["name"].split("/")[0].split("+")) and (not hasattr(mod, "owns") or mod.owns(o)) else "helper"
    for o in obligs:
        retag(o)
    kf = load_known_findings()
    uncovered = [o for o in obligs if o["tag"] == "cover"]
    obligs = [o for o in obligs if o["tag"] != "cover"]
    failing_units = {o["unit"] for o in obligs if o["status"] == "sat" and o["tag"] in ("property", "helper")}
    for o in uncovered:
        if o["unit"] in failing_units:
            continue  # the unit already fails an obligation (e.g. an unexpected exception replaces the described outcome)
        rep.say(f"ENGINE-ERROR property={prop}: outcome {o['name']} of the contract of {o['unit']} is reached by no path (vacuous clause)")
        rep.bump(EXIT_ENGINE)
    real = [o for o in obligs if o["tag"] != "canary"]
    canaries = [o for o in obligs if o["tag"] == "canary"]
    # canaries: each deliberately false clause must be refuted on at least one path
    can_ids = sorted({o["name"] for o in canaries if own & set(o["name"].split("/")[0].split("+"))})
    # a canary is fine when some path could NOT discharge it (refuted, or no proof found because of quantifiers)
    can_ok = {c: any(o["status"] != "unsat" for o in canaries if o["name"] == c) for c in can_ids}
    for c, ok in can_ok.items():
        if not ok:
            rep.say(f"ENGINE-ERROR property={prop}: canary {c} was not refuted (vacuous path conditions or lost effect)")
            rep.bump(EXIT_ENGINE)
    expected = getattr(mod, "MIN_OBLIGATIONS", 1)
    if len(real) < expected and not unsupported_units:
        rep.say(f"ENGINE-ERROR property={prop}: only {len(real)} obligations generated, expected at least {expected}")
        rep.bump(EXIT_ENGINE)

    failing_prop = [o for o in real if o["tag"] == "property" and o["status"] == "sat"]
    # a helper clause that is refuted *or* left undecided is a stale helper: the property obligations are re-proved without relying on it
    failing_helper = [o for o in real if o["tag"] == "helper" and o["status"] in ("sat", "unknown")]
    undecided = [o for o in real if o["status"] == "unknown" and o["tag"] == "property"]

    # stale helpers: re-prove with the callee bodies inlined (DESIGN.md §6)
    stale_note = []
    if failing_helper and not failing_prop and hasattr(mod, "build"):
        # first the cheap and modular repair: a callee's contract without the clauses its body no longer satisfies is still a
        # contract its body satisfies (every clause is discharged on its own).  If the failed clauses are all postcondition clauses
        # (not a frame, a well-formedness, a raises-only or a call-site obligation), the callers are re-proved assuming only the
        # clauses that were discharged; nothing is inlined, so loop invariants stay where they were proved.
        ids_of = {}
        for u in units:
            ct = u.contract
            ids = {cl.id for cl in getattr(ct, "ensures", [])} | {cl.id for lst in getattr(ct, "raises", {}).values() for cl in lst}
            ids_of.setdefault(u.qualname, set()).update(ids)
        drop = {(h["unit"].split("[")[0], h["name"]) for h in failing_helper}
        if all(name in ids_of.get(q, ()) for q, name in drop):
            try:
                units_w = mod.build(world)
                for u in units_w:
                    u.drop_clauses = frozenset(drop)
                res_w = run_units(world, units_w)
                ob_w = [o for _, obs, _, _ in res_w for o in obs]
                for o in ob_w:
                    retag(o)
                ok_w = (not any(err for _, _, _, err in res_w) and len(ob_w) >= len(real)
                        and all(o["status"] == "unsat" for o in ob_w if o["tag"] == "property"))
            except Exception:  # noqa: BLE001
                ok_w = False
            if ok_w:
                for h in failing_helper:
                    stale_note.append(f"STALE-HELPER contract clause {h['name']} in {h['unit']} (property obligations re-proved against the callee contracts without that clause)")
                failing_helper = []
    if failing_helper and not failing_prop and hasattr(mod, "rebuild_inlined"):
        stale_units = sorted({o["unit"] for o in failing_helper})
        units2 = mod.rebuild_inlined(world, failing_helper)
        res2 = run_units(world, units2)
        ob2 = [o for _, obs, _, _ in res2 for o in obs]
        for o in ob2:
            retag(o)
        bad2 = [o for o in ob2 if o["tag"] == "property" and o["status"] != "unsat"]
        if any(err for _, _, _, err in res2):
            bad2.append({"name": "inline-fallback-crashed", "unit": "", "status": "unknown", "tag": "property", "path": [], "model": None})
        if not bad2:
            for h in failing_helper:
                stale_note.append(f"STALE-HELPER contract clause {h['name']} in {h['unit']} (property obligations re-proved with the body inlined)")
            failing_helper = []
        else:
            failing_prop.extend(o for o in bad2 if o["status"] == "sat")
            undecided.extend(o for o in bad2 if o["status"] == "unknown")
    for s in stale_note:
        rep.say(s)
    if failing_helper and not failing_prop:
        # a helper clause that fails and cannot be bypassed leaves the property undecided, never violated
        for h in failing_helper:
            rep.say(f"UNDECIDED property={prop} helper-obligation={h['name']} unit={h['unit']} (contract out of step with the source)")
        rep.bump(EXIT_UNDECIDED)

    known_lines, reported = [], set()
    replays = []
    for ob in failing_prop:
        key = (ob["name"],)
        matched = [fd for fd in kf.get("findings", []) if finding_matches(fd, prop, ob)]
        rp = None
        try:
            rp = mod.replay(world, ob) if hasattr(mod, "replay") else None
        except Exception:  # noqa: BLE001
            rp = {"confirmed": False, "error": traceback.format_exc()}
        if matched_skip(kf, prop, ob) is None and key in reported:
            continue
        fname = f"{prop}-{hashlib.sha1(('|'.join(key)).encode()).hexdigest()[:10]}.json"
        path = os.path.join(EVDIR, "replays", fname)
        units_failing = sorted({o["unit"] for o in failing_prop if o["name"] == ob["name"]})
        with open(os.path.join(VERIF, path), "w") as f:
            json.dump({"property": prop, "obligation": ob["name"], "unit": ob["unit"], "all_failing_units": units_failing, "path": ob["path"],
                       "solver": {"backend": ob["backend"], "answer": ob["status"], "seconds": ob["secs"]},
                       "counter_model": ob["model"], "native_replay": rp}, f, indent=1, default=str)
        replays.append(path)
        if matched:
            line = f"KNOWN-FINDING: property={prop} {matched[0].get('what', ob['name'])} [{ob['name']} in {ob['unit']}]"
            if line not in known_lines:
                known_lines.append(line)
            continue
        if key in reported:
            continue
        reported.add(key)
        confirmed = bool(rp and rp.get("confirmed"))
        rep.violations += 1
        more = f" (+{len(units_failing) - 1} more units)" if len(units_failing) > 1 else ""
        rep.say(f"VIOLATION property={prop} replay={path} obligation={ob['name']} unit={ob['unit']}{more}" + ("" if confirmed else " no-failing-input-found"))
        rep.bump(EXIT_VIOLATION)
    for line in known_lines:
        rep.say(line)
    # no verdict on a property obligation: the bounded native search stands in (DESIGN.md section 6)
    und_prop = [o for o in undecided if o["tag"] == "property"]
    searched = {}
    for ob in undecided:
        if ob["tag"] == "property" and hasattr(mod, "bounded_search"):
            if ob["unit"] not in searched:
                try:
                    searched[ob["unit"]] = mod.bounded_search(world, ob["unit"])
                except Exception:  # noqa: BLE001
                    searched[ob["unit"]] = None
                    sys.stderr.write(traceback.format_exc())
            fails = searched[ob["unit"]]
            if fails:
                key = (ob["name"],)
                if key in reported:
                    continue
                reported.add(key)
                if any(finding_matches(fd, prop, ob) for fd in kf.get("findings", [])):
                    rep.say(f"KNOWN-FINDING: property={prop} {ob['name']} in {ob['unit']} (undecided by the solvers, failing input found by the bounded search)")
                    continue
                fname = f"{prop}-{hashlib.sha1((ob['name'] + '|undecided').encode()).hexdigest()[:10]}.json"
                path = os.path.join(EVDIR, "replays", fname)
                with open(os.path.join(VERIF, path), "w") as f:
                    json.dump({"property": prop, "obligation": ob["name"], "unit": ob["unit"], "path": ob["path"],
                               "solver": {"backend": ob["backend"], "answer": "unknown (z3 and cvc5)", "seconds": ob["secs"]},
                               "native_replay": fails[0], "note": "the obligation, discharged on the unchanged tree, is no longer provable; "
                               "the bounded native search produced this failing input"}, f, indent=1, default=str)
                rep.violations += 1
                rep.say(f"VIOLATION property={prop} replay={path} obligation={ob['name']} unit={ob['unit']} (solvers undecided; failing input from the bounded search)")
                rep.bump(EXIT_VIOLATION)
                continue
        rep.say(f"UNDECIDED property={prop} obligation={ob['name']} unit={ob['unit']}")
        rep.bump(EXIT_UNDECIDED)

    # bounded stand-in / extra thorough work
    bounded = None
    if hasattr(mod, "bounded"):
        try:
            bounded = mod.bounded(world, tier, seed, rep)
            nf_ = bounded.get("native_failure") if isinstance(bounded, dict) else None
            if nf_ and rep.exit == EXIT_OK and not known_lines:
                # the bounded stand-in disagrees with a clean deductive verdict: the engine or a contract is wrong
                # a failing input on the real code is a violation whatever the prover says; that every obligation was discharged
                # means the contracts do not carry this part of the property (recorded in the replay file as a contract gap)
                fname = f"{prop}-bounded-{hashlib.sha1(json.dumps(nf_, sort_keys=True, default=str).encode()).hexdigest()[:10]}.json"
                path = os.path.join(EVDIR, "replays", fname)
                os.makedirs(os.path.join(VERIF, EVDIR, "replays"), exist_ok=True)
                with open(os.path.join(VERIF, path), "w") as f:
                    json.dump({"property": prop, "obligation": f"{prop}/native-differential", "unit": "bounded stand-in",
                               "native_replay": nf_, "note": "every generated obligation was discharged, but this input fails the property on the real "
                               "code: the contracts under this property do not cover it (contract gap)"}, f, indent=1, default=str)
                rep.violations += 1
                rep.say(f"VIOLATION property={prop} replay={path} obligation={prop}/native-differential unit=bounded-stand-in "
                        f"(failing input found by the bounded stand-in; all deductive obligations discharged: contract gap) {str(nf_)[:200]}")
                rep.bump(EXIT_VIOLATION)
        except Exception:  # noqa: BLE001
            rep.say(f"ENGINE-ERROR property={prop}: bounded stand-in crashed: {traceback.format_exc().strip().splitlines()[-1]}")
            sys.stderr.write(traceback.format_exc())
            rep.bump(EXIT_ENGINE)

    # bounded differential checks of the assumed library contracts this property leans on
    assumption_checks = None
    if getattr(mod, "ASSUMPTION_CHECKS", None):
        try:
            from props import assumptions
            assumption_checks = assumptions.run(mod.ASSUMPTION_CHECKS)
            for nm, r in assumption_checks.items():
                if r["failure"]:
                    rep.say(f"ENGINE-ERROR property={prop}: assumed contract {nm} is refuted by the real dependency: {r['failure']}")
                    rep.bump(EXIT_ENGINE)
        except Exception:  # noqa: BLE001
            sys.stderr.write(traceback.format_exc())
    discharged = sum(1 for o in real if o["status"] == "unsat")
    level = "proof" if (rep.exit == EXIT_OK and not known_lines and discharged == len(real)) else "other"
    fuc = sorted({u.name for u in units})
    samples = []
    seen = set()
    for o in real:
        if o["name"] not in seen and len(samples) < 12:
            seen.add(o["name"])
            samples.append({"obligation": o["name"], "unit": o["unit"], "status": o["status"], "tag": o["tag"], "backend": o["backend"], "secs": o["secs"], "path": o["path"][-6:]})
    cov = {
        "obligations": len(real), "discharged": discharged,
        "checker_cmd": f"./check {prop} --tier {tier}",
        "trusted_base": list(getattr(mod, "TRUSTED", [])),
        "functions_under_contract": fuc,
        "assumed_contracts": sorted(world.assumed),
        "paths": sum(s.get("paths", 0) for s in stats),
        "by_backend": by_backend,
        "property_obligations": sum(1 for o in real if o["tag"] == "property"),
        "helper_obligations": sum(1 for o in real if o["tag"] == "helper"),
        "stale_helpers": stale_note,
        "canaries": can_ok,
        "known_findings_hit": known_lines,
        "undecided": [o["name"] + "|" + o["unit"] for o in undecided],
        "samples": samples,
        "explanation": getattr(mod, "EXPLANATION", "") + (" Level is 'other' because this run did not discharge every obligation or hit a recorded known finding." if level != "proof" else ""),
        "feasibility_unknown": sum(s.get("feas_unknown", 0) for s in stats),
        "solver_secs": round(sum(o["secs"] for o in obligs), 3),
        # head-room against the per-obligation time limit (20 s): slow queries are the ones that flip under load
        "slowest_obligations": [{"obligation": o["name"], "unit": o["unit"], "secs": round(o["secs"], 2)}
                                for o in sorted(real, key=lambda o: -o["secs"])[:5]],
        "relational_units": sum(1 for s in stats if s.get("relational")),
        "units_outside_the_subset": [{"unit": n, "why": e[:160]} for n, e in unsupported_units],
    }
    if bounded is not None:
        cov["bounded"] = bounded
    if assumption_checks is not None:
        cov["assumption_checks"] = assumption_checks
    if xres["checked"]:
        cov["cross_solver_sample"] = xres
    ev = {"property_id": prop, "tier": tier, "seed": seed, "level": level, "coverage": cov,
          "assumptions": list(getattr(mod, "ASSUMPTIONS", [])), "wall_s": round(time.time() - rep.t0, 2),
          "violations": rep.violations}
    with open(os.path.join(VERIF, EVDIR, f"{prop}.json"), "w") as f:
        json.dump(ev, f, indent=1, default=str)
    rep.say(f"{prop}: {discharged}/{len(real)} obligations discharged over {cov['paths']} paths in {len(units)} units; "
            f"exit {rep.exit}; {ev['wall_s']} s")
    return rep.exit
