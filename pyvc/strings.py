"""String models (A-STR): rstrip, split, join, rpartition, replace, encode/decode as spec functions plus lemma
instances generated from the syntactic shape of the argument (DESIGN.md §3.3, "Strings").

Every lemma added to a path is a true statement about CPython's str methods; what is *assumed* is that CPython
implements them as documented.  Because only ground instances are added, a `sat` answer on a string obligation is
a candidate that must be confirmed by native replay.
"""
from __future__ import annotations

import z3

from .core import *  # noqa: F403
from .core import MISSING
from . import lib as L
from .interp import is_sym

nf = z3.Function("nfields", StrS, StrS, IntS)  # number of sep-separated fields of s
nth = z3.Function("nth", StrS, StrS, IntS, StrS)  # i-th field (no maxsplit)
rest = z3.Function("rest", StrS, StrS, IntS, StrS)  # s after its i-th separator (rest(s,sep,0) = s)
lastn = z3.Function("lastn", StrS, StrS, IntS, StrS)  # j-th field from the end (j >= 1)
WS = " \t\n\r\x0b\x0c\x1c\x1d\x1e\x1f\x85\xa0"


def sterm(I, v):
    return z3.StringVal(v) if isinstance(v, str) else v.term


def parts_of(term):
    """Flatten a z3 string term into a list of parts: python str literals and opaque z3 terms."""
    if z3.is_string_value(term):
        return [term.as_string()]
    if z3.is_app(term) and term.decl().kind() == z3.Z3_OP_SEQ_CONCAT:
        out = []
        for ch in term.children():
            out += parts_of(ch)
        return out
    return [term]


def mk_concat(parts):
    ps = []
    for p in parts:
        if isinstance(p, str):
            if p == "":
                continue
            if ps and isinstance(ps[-1], str):
                ps[-1] += p
                continue
        ps.append(p)
    if not ps:
        return z3.StringVal("")
    ts = [z3.StringVal(p) if isinstance(p, str) else p for p in ps]
    return ts[0] if len(ts) == 1 else z3.Concat(*ts)


def rstrip_model(I, s):
    """s.rstrip(): returns a *structural* term whenever the shape of s decides the result."""
    if isinstance(s, str):
        return s.rstrip()
    t = s.term
    ps = parts_of(t)
    # R1: trailing literal whitespace is removed (always true)
    while ps and isinstance(ps[-1], str):
        stripped = ps[-1].rstrip()
        if stripped == "":
            ps.pop()
            continue
        ps[-1] = stripped
        break
    if not ps:
        return ""
    inner = mk_concat(ps)
    if isinstance(ps[-1], str):
        return I.mk(inner, "str")  # ends with a non-whitespace literal character
    # R2: X ++ p is its own rstrip when rstrip(p) == p and (p != "" or X ends with a non-whitespace literal)
    p = ps[-1]
    X = ps[:-1]
    if X:
        x_ends_solid = isinstance(X[-1], str) and X[-1] and X[-1][-1] not in WS
        cond = L.rstrip_f(p) == p if x_ends_solid else z3.And(L.rstrip_f(p) == p, p != z3.StringVal(""))
        if I.c.branch(cond, "rstrip-noop"):
            return I.mk(inner, "str")
    r = L.rstrip_f(inner)
    I.c.assume(L.rstrip_f(r) == r)
    return I.mk(r, "str")


def sepfree_fact(I, term, sep):
    """A z3 fact stating that `term` contains no `sep` (used as the hypothesis of the split lemmas)."""
    if z3.is_string_value(term):
        return z3.BoolVal(sep not in term.as_string())
    return L.sepfree(term, z3.StringVal(sep))


def split_facts(I, t, sep):
    """Lemma instances for nfields/nth/rest of a syntactically decomposable term t."""
    ps = parts_of(t)
    # cut literals at the separator: sequence of items, each a list of parts (a field) separated by sep
    fields = [[]]
    for p in ps:
        if isinstance(p, str):
            chunks = p.split(sep)
            fields[-1].append(chunks[0])
            for ch in chunks[1:]:
                fields.append([ch])
        else:
            fields[-1].append(p)
    sv = z3.StringVal(sep)
    c = I.c
    # generic facts
    c.assume(nf(t, sv) >= 1)
    c.assume(rest(t, sv, 0) == t)
    if len(fields) == 1:
        return 0
    # hypotheses: each opaque part that sits in a non-final field is separator-free
    hyps = []
    for fld in fields[:-1]:
        for p in fld:
            if not isinstance(p, str):
                hyps.append(sepfree_fact(I, p, sep))
    hyp = z3.And(*hyps) if hyps else z3.BoolVal(True)
    k = len(fields) - 1  # number of literal separators found
    tail = mk_concat(fields[-1])
    facts = [nf(t, sv) == k + nf(tail, sv)]
    for i, fld in enumerate(fields[:-1]):
        facts.append(nth(t, sv, i) == mk_concat(fld))
    for i in range(1, k + 1):
        suffix = []
        for j in range(i, len(fields)):
            if j > i:
                suffix.append(sep)
            suffix += fields[j]
        facts.append(rest(t, sv, i) == mk_concat(suffix))
    # fields of the tail are the later fields of t
    for j in range(0, 3):
        facts.append(z3.Implies(nf(tail, sv) > j, nth(t, sv, k + j) == nth(tail, sv, j)))
    facts.append(nf(tail, sv) >= 1)
    c.assume(z3.Implies(hyp, z3.And(*facts)))
    # a separator-free tail is a single field
    c.assume(z3.Implies(sepfree_fact(I, tail, sep), z3.And(nf(tail, sv) == 1, nth(tail, sv, 0) == tail)))
    return k


class SplitList(LibObj):
    """Result of s.split(sep[, maxsplit]) for a symbolic s."""

    def __init__(self, I, s, sep, maxsplit):
        super().__init__("splitlist")
        self.s, self.sep, self.maxsplit = s, sep, maxsplit
        self.t = sterm(I, s)
        self.sv = z3.StringVal(sep)
        found = split_facts(I, self.t, sep)
        n = nf(self.t, self.sv)
        self.n_all = n
        # general facts about fields: none contains the separator; last field = rest after nf-1 separators
        self.len_term = n if maxsplit is None else z3.If(n > maxsplit + 1, z3.IntVal(maxsplit + 1), n)
        self.concrete_len = None
        # reconstruction: with more than m separators, s is its first m fields, separators, and the remainder
        m = maxsplit if maxsplit is not None else 5
        pieces = []
        for i in range(m):
            pieces += [nth(self.t, self.sv, i), self.sv]
        pieces.append(rest(self.t, self.sv, m))
        if not found:  # (for a term built by concatenation the field lemmas above already say this, without a word equation)
            I.c.assume(z3.Implies(n > m, self.t == z3.Concat(*pieces)))
        I.c.assume(z3.Implies(n == m + 1, rest(self.t, self.sv, m) == nth(self.t, self.sv, m)))

    def length(self, I):
        return I.mk(self.len_term, "int")

    def elem(self, I, i, total):
        """i-th element given the list has `total` elements (python ints)."""
        if self.maxsplit is not None and i == self.maxsplit and total == self.maxsplit + 1:
            # the last piece under maxsplit: everything after the maxsplit-th separator
            return I.mk(rest(self.t, self.sv, self.maxsplit), "str")
        e = nth(self.t, self.sv, i)
        I.c.assume(L.sepfree(e, self.sv))
        return I.mk(e, "str")

    def fix_length(self, I, upto):
        """Fork on the list length: returns a python int n < upto, or `upto` meaning 'at least upto'."""
        if self.concrete_len is not None:
            return self.concrete_len
        i = I.c.choose([self.len_term == k for k in range(1, upto)], "split-len")
        n = i + 1
        if n == upto:
            I.c.assume(self.len_term >= upto)
        self.concrete_len = n
        return n

    def take(self, I, want):
        """First `want` elements (or all of them when shorter): used by zip()."""
        if want is None:
            raise Unsupported("zip of two symbolic-length lists")
        n = self.fix_length(I, want)
        if n < want:
            total = n
        else:
            total = (self.maxsplit + 1) if self.maxsplit is not None else None
        return [self.elem(I, i, total) for i in range(min(n, want))]

    def iterate(self, I):
        cap = (self.maxsplit + 1) if self.maxsplit is not None else None
        if cap is None:
            raise Unsupported("iteration over an unbounded symbolic split")
        n = self.fix_length(I, cap)
        return [self.elem(I, i, n) for i in range(n)]

    def getitem(self, I, k, node):
        if isinstance(k, int) and k < 0:
            known, total_lits = self.tail_fields(I)
            if -k <= len(known) or total_lits >= -k:
                return self.from_end(I, -k)
            if not I.c.branch(self.n_all >= -k, "index-in-range"):
                raise RaiseSig(I.make_exc("IndexError", site=node))
            return self.from_end(I, -k)
        if isinstance(k, int) and k >= 0:
            cap = (self.maxsplit + 1) if self.maxsplit is not None else k + 2
            n = self.fix_length(I, max(cap, k + 1) if self.maxsplit is None else cap)
            if k >= n and not (self.maxsplit is None and n == max(cap, k + 1)):
                raise RaiseSig(I.make_exc("IndexError", site=node))
            return self.elem(I, k, n)
        raise Unsupported("symbolic index into a split list")

    def tail_fields(self, I):
        """Fields at the end of the string that are known from its shape (each separator-free): list from the end."""
        ps = parts_of(self.t)
        fields = [[]]
        for p in ps:
            if isinstance(p, str):
                chunks = p.split(self.sep)
                fields[-1].append(chunks[0])
                for ch in chunks[1:]:
                    fields.append([ch])
            else:
                fields[-1].append(p)
        out = []
        for fld in reversed(fields[1:]):  # fields[0] may be glued to an arbitrary prefix
            hyps = [sepfree_fact(I, p, self.sep) for p in fld if not isinstance(p, str)]
            if hyps and not I.c.branch(z3.And(*hyps), "field-sepfree"):
                break
            out.append(mk_concat(fld))
        return out, len(fields)

    def from_end(self, I, j):
        known, total_lits = self.tail_fields(I)
        if j <= len(known):
            t = known[j - 1]
            I.c.assume(lastn(self.t, self.sv, j) == t)
            I.c.assume(self.n_all >= total_lits)
            return I.mk(t, "str")
        e = lastn(self.t, self.sv, j)
        I.c.assume(L.sepfree(e, self.sv))
        return I.mk(e, "str")

    def slice(self, I, lo, hi):
        if hi is None and isinstance(lo, int) and lo < 0:
            k = -lo
            known, total_lits = self.tail_fields(I)
            if total_lits > k:
                I.c.assume(self.n_all >= total_lits)
                n = k
            else:
                i = I.c.choose([self.n_all == m for m in range(1, k)], "split-len")
                n = i + 1 if i < k - 1 else k
                if n == k:
                    I.c.assume(self.n_all >= k)
                else:
                    return [I.mk(nth(self.t, self.sv, m), "str") for m in range(n)]
            return [self.from_end(I, j) for j in range(k, 0, -1)]
        raise Unsupported("slice of a symbolic split list")

    def unpack(self, I, m, node=None):
        """Tuple-unpacking into m targets: exactly m elements or ValueError."""
        if not I.c.branch(self.len_term == m, "unpack-len"):
            raise RaiseSig(I.make_exc("ValueError", site=node))
        return [self.elem(I, i, m) for i in range(m)]


def join_model(I, sep, items):
    parts = []
    for i, x in enumerate(items):
        if i:
            parts.append(sep)
        if not (isinstance(x, str) or is_sym(x, "str")):
            I.raise_("TypeError")
        parts.append(x)
    return I.lib.concat(I, parts)


def format_model(lib, I, template, a, k):
    """A literal template's .format(...) with plain replacement fields ({}, {0}, {name}: no attribute / index access, no
    conversion, no format specification): the same concatenation an f-string with those fields is."""
    import string
    parts, auto = [], 0
    try:
        parsed = list(string.Formatter().parse(template))
    except ValueError:
        I.raise_("ValueError")
    for literal, field, spec, conv in parsed:
        if literal:
            parts.append(literal)
        if field is None:
            continue
        if spec or conv:
            raise Unsupported("str.format field with a conversion or a format specification")
        if (field == "" and any(f and f.isdigit() for _, f, _, _ in parsed)):
            raise Unsupported("str.format mixing automatic and manual field numbering")
        if field == "":
            field, auto = str(auto), auto + 1
        if field.isdigit():
            if int(field) >= len(a):
                I.raise_("IndexError")
            v = a[int(field)]
        elif field.isidentifier():
            if field not in k:
                I.raise_("KeyError")
            v = k[field]
        else:
            raise Unsupported("str.format field with attribute or index access")
        parts.append(lib.to_str(I, v))
    return lib.concat(I, parts)


def str_method(lib, I, s, name, a, k, node):
    if name == "rstrip" and not a:
        return rstrip_model(I, s)
    if name == "split" and a and isinstance(a[0], str) and len(a[0]) == 1:
        maxsplit = a[1] if len(a) > 1 else k.get("maxsplit")
        if maxsplit is not None and not isinstance(maxsplit, int):
            raise Unsupported("symbolic maxsplit")
        if maxsplit is not None and maxsplit < 0:
            maxsplit = None
        return SplitList(I, s, a[0], maxsplit)
    if name == "join" and isinstance(s, str):
        return join_model(I, s, list(lib.iterate(I, a[0])))
    if name == "encode":
        if k or len(a) > 1 or (a and a[0] not in ("utf-8", "utf8", "UTF-8")):
            raise Unsupported("str.encode with an encoding other than utf-8 or an errors argument")
        return LibObj("pybytes_sym", term=L.utf8(sterm(I, s)), src=s)
    if name == "lower" and isinstance(s, str):
        return s.lower()
    if name == "format" and isinstance(s, str):
        return format_model(lib, I, s, a, k)
    if name in ("startswith", "endswith") and len(a) == 1 and (isinstance(a[0], str) or is_sym(a[0], "str")):
        f = z3.PrefixOf if name == "startswith" else z3.SuffixOf
        return I.mk(f(sterm(I, a[0]), sterm(I, s)), "bool")
    return MISSING
