"""Relational comparison of one function under two receivers (protocol versions): C19 for shared code.

A handler that two versions inherit unchanged can still behave differently, because it reads version-dependent tables
(`gateway.protocol.X`, `cls.Y`).  Both versions are executed symbolically from the same symbolic pre-state (the parameter
and heap symbols of the two runs have the same names, see `aligned`); every pair of paths whose path conditions overlap
must then have the same outcome and leave the same heap.  A satisfiable overlap of two different outcomes (or of two
different final values of one heap field) is a *candidate*: its model is concretised and replayed natively under both
versions, and only a difference that shows on the real code is reported.  Candidates that do not replay (the two runs
name their havocked callee results differently, or the concretiser loses the model) are counted, never reported.
"""
from __future__ import annotations

import time

import z3

from .core import *  # noqa: F403
from . import spec


def summarise(world, func, ct, receiver, name, case, setup=None, max_paths=400):
    col = []
    obs, st = spec.verify_unit(world, func, ct, receiver=receiver, unit_name=name, setup=setup, max_paths=max_paths, case=case, collector=col)
    return col, st


def aligned(pa, pb, params):
    """The two runs must start from the same symbols: same parameter terms by name."""
    ea, eb = pa["ctx"].env, pb["ctx"].env
    for k in params:
        va, vb = ea.get(k), eb.get(k)
        ta = getattr(va, "ref", None) if isinstance(va, Obj) else getattr(va, "term", None) if isinstance(va, Sym) else None
        tb = getattr(vb, "ref", None) if isinstance(vb, Obj) else getattr(vb, "term", None) if isinstance(vb, Sym) else None
        if ta is not None and tb is not None and not ta.eq(tb):
            return False
    return True


VERSION_STATE = ("Gateway._protocol", "Gateway._protocol_version", "MessageSchema.ctx_protocol")  # what legitimately differs


def rename_apart(fs, mark, cache):
    """Rename the symbols a run created after its prologue (callee results, havoc) so that they cannot clash with the
    other run's symbols of the same name; the pre-state symbols (created in the prologue) stay shared."""
    out = []
    for f in fs:
        subs = []
        seen = set()
        stack = [f]
        while stack:
            e = stack.pop()
            if e.get_id() in seen:
                continue
            seen.add(e.get_id())
            if z3.is_const(e) and e.decl().kind() == z3.Z3_OP_UNINTERPRETED:
                nm = e.decl().name()
                if nm.split("@")[0].replace("?none", "") in VERSION_STATE:
                    key = (nm, e.sort().sexpr())
                    if key not in cache:
                        cache[key] = z3.Const(nm + "#b", e.sort())
                    subs.append((e, cache[key]))
                elif "!" in nm and not nm.startswith("new:"):
                    try:
                        k = int(nm.rsplit("!", 1)[1])
                    except ValueError:
                        continue
                    if k >= mark:
                        key = (nm, e.sort().sexpr())
                        if key not in cache:
                            cache[key] = z3.Const(nm + "#b", e.sort())
                        subs.append((e, cache[key]))
            elif z3.is_app(e):
                stack.extend(e.children())
            elif z3.is_quantifier(e):
                stack.append(e.body())
        out.append(z3.substitute(f, *subs) if subs else f)
    return out


def changed_fields(p):
    h0, h1 = p["heap0"], p["heap1"]
    out = {}
    for name, t in h1.cur.items():
        t0 = h0.cur.get(name)
        if t0 is None or not t0.eq(t):
            out[name] = t
    return out


def compare(world, func, a, b, case, confirm, budget_s=150, domain=None, skip_pair=None):
    """a, b: (contract, receiver, tag).  Returns (obligation dict, stats)."""
    t0 = time.time()
    (cta, ra, ta), (ctb, rb, tb) = a, b
    fname = func.qualname.replace(".__wrapped__", "").rsplit(".", 1)[-1]
    oname = f"C19/same-behaviour[{ta}<{tb}]/{fname}"
    uname = f"{func.qualname}[{ta}~{tb}]" + ("".join(f"[{c}]" for c in case) if case else "")
    stats = {"unit": uname, "paths": 0, "outcomes": {}, "feas_unknown": 0, "relational": True}
    pa, sa = summarise(world, func, cta, ra, uname + "/a", case)
    pb, sb = summarise(world, func, ctb, rb, uname + "/b", case)
    if "unsupported" in sa or "unsupported" in sb:
        stats["unsupported"] = sa.get("unsupported") or sb.get("unsupported")
        return [], stats
    stats["paths"] = len(pa) + len(pb)
    cand, spurious, confirmed = 0, 0, None
    if pa and pb and not aligned(pa[0], pb[0], list(cta.params)):
        stats["unsupported"] = "the two runs do not start from the same symbols"
        return [], stats
    t0 = time.time()
    pa = [p for p in pa if p["key"] != "raise:TransportError"]
    pb = [p for p in pb if p["key"] != "raise:TransportError"]
    renamed = {}
    for j, y in enumerate(pb):
        cache = {}
        mark = y["ctx"].prologue_fresh or 0
        renamed[j] = (rename_apart(y["ctx"].pc, mark, cache), cache, mark)
    # (the property quantifies over fault-free histories: paths on which a transport write fails are compared per version, C08/C10)
    for x in pa:
        if confirmed or time.time() - t0 > budget_s:
            stats["budget_exhausted"] = not confirmed
            break
        sx = x["ctx"].solver
        fx = changed_fields(x)
        dom = domain(x["I"], x["ctx"].env, ta, tb) if domain is not None else None
        for j, y in enumerate(pb):
            if confirmed:
                break
            if skip_pair is not None and skip_pair(x["key"], y["key"], ta, tb):
                continue
            ypc, ycache, ymark = renamed[j]
            queries = []
            if x["key"] != y["key"]:
                queries.append(("outcome", z3.BoolVal(True)))
            else:
                fy = changed_fields(y)
                for name in sorted(set(fx) | set(fy)):
                    tx = fx.get(name, x["heap0"].cur.get(name))
                    ty = fy.get(name, y["heap0"].cur.get(name))
                    if tx is None or ty is None or tx.eq(ty) or tx.sort() != ty.sort():
                        continue
                    # values that depend on what a callee returned / havocked are not comparable between the two runs
                    if name.split("@")[0].replace("?none", "") in VERSION_STATE:
                        continue
                    ty2 = rename_apart([ty], ymark, ycache)[0]
                    tx2 = rename_apart([tx], x["ctx"].prologue_fresh or 0, {})[0]
                    if not ty2.eq(ty) or not tx2.eq(tx):
                        continue
                    queries.append((name, tx != ty))
            for what, q in queries:
                sx.push()
                sx.set("timeout", 3000)
                for f in ypc:
                    sx.add(f)
                if dom is not None:
                    sx.add(dom)  # the part of the input space the relational property speaks about
                sx.add(q)
                r = sx.check()
                model = sx.model() if r == z3.sat else None
                sx.pop()
                if r != z3.sat:
                    continue
                cand += 1
                try:
                    desc = world.describe_model(x["I"], model)
                    res = confirm(desc, ta, tb)
                except Exception as e:  # noqa: BLE001
                    res = None
                    stats.setdefault("confirm_errors", []).append(repr(e)[:200])
                if not res and len(stats.setdefault("unreplayed", [])) < 6:
                    stats["unreplayed"].append({"what": what, "a": x["key"], "b": y["key"], "path_a": list(x["ctx"].notes)[-6:], "path_b": list(y["ctx"].notes)[-6:]})
                if res:
                    confirmed = dict(res, differs_in=what, path_a=list(x["ctx"].notes)[-8:], path_b=list(y["ctx"].notes)[-8:])
                    break
                spurious += 1
    stats["candidates"], stats["not_replayed"] = cand, spurious
    stats["secs"] = round(time.time() - t0, 3)
    ob = {"name": oname, "tag": "property", "status": "sat" if confirmed else "unsat", "secs": stats["secs"], "backend": "z3+native",
          "unit": uname, "path": [f"{len(pa)}x{len(pb)} path pairs, {cand} candidate differences, {spurious} not reproduced natively"],
          "model": confirmed, "relational": True}
    return [ob], stats
