"""Turns a z3 counter-model into plain Python data describing the failing pre-state (DESIGN.md §6.1)."""
from __future__ import annotations

import z3

from .core import *  # noqa: F403
from .interp import is_sym, SpecOpt


def pyval(model, term):
    v = model.eval(term, model_completion=True)
    if z3.is_int_value(v):
        return v.as_long()
    if z3.is_true(v):
        return True
    if z3.is_false(v):
        return False
    if z3.is_string_value(v):
        return v.as_string()
    return str(v)


def store_keys(expr):
    ks = []
    e = expr
    while z3.is_app(e) and e.decl().kind() == z3.Z3_OP_STORE:
        ks.append(e.arg(1))
        e = e.arg(0)
    return ks


def model_ints(model):
    out = set()
    for d in model.decls():
        if d.arity() == 0 and d.range() == IntS:
            v = model[d]
            if z3.is_int_value(v):
                out.add(v.as_long())
    return out


def describe_value(I, model, v, heap, depth=0, ints=None):
    if depth > 9:
        return "..."
    if v is None or isinstance(v, (int, str, bool)):
        return v
    if isinstance(v, Sym):
        if v.kind == "key3":
            return [pyval(model, k3n(v.term)), pyval(model, k3c(v.term)), pyval(model, k3t(v.term))]
        return pyval(model, v.term)
    if isinstance(v, (ClassVal, ModuleVal, EnumMember, FuncVal)):
        return repr(v)
    if isinstance(v, ExcObj):
        return {"__exc__": v.cls.name, "attrs": {k: describe_value(I, model, x, heap, depth + 1, ints) for k, x in v.attrs.items()}}
    if isinstance(v, (tuple, list)):
        return [describe_value(I, model, x, heap, depth + 1, ints) for x in v]
    if isinstance(v, Obj):
        if v.typ.kind == "dict":
            return describe_dict(I, model, v, heap, depth, ints)
        if v.typ.kind == "opaque":
            return f"<{tname(v.typ)}>"
        out = {"__class__": tname(v.typ), "__ref__": str(model.eval(v.ref, model_completion=True))}
        cls = I.w.class_by_name(tname(v.typ))
        names = [c.name for c in cls.mro()] if cls else [tname(v.typ)]
        for cn in names:
            for attr, t in I.w.types.FIELDS.get(cn, {}).items():
                fname = I.fname(cn, attr)
                inner = t.args[0] if t.kind == "opt" else t
                if t.kind == "opt":
                    isn = pyval(model, z3.Select(heap.get(fname + "?none", arr(Ref, BoolS)), v.ref))
                    if isn is True:
                        out[attr] = None
                        continue
                term = z3.Select(heap.get(fname, arr(Ref, sort_of(inner))), v.ref)
                if inner.kind in ("obj", "dict", "opaque"):
                    out[attr] = describe_value(I, model, Obj(term, inner), heap, depth + 1, ints)
                elif inner.kind == "proto":
                    i = pyval(model, term)
                    out[attr] = ["1.4", "1.5", "2.0", "2.1", "2.2"][i] if isinstance(i, int) and 0 <= i < 5 else i
                else:
                    out[attr] = pyval(model, term)
        return out
    return repr(v)


def describe_dict(I, model, d, heap, depth, ints):
    kt, vt = d.typ.args
    dom = I.d_dom(d, heap)
    mp = I.d_map(d, heap)
    cands = []
    domv = model.eval(dom, model_completion=True)
    for k in store_keys(domv):
        cands.append(k)
    if kt == TInt:
        first = sorted(i for i in (ints or set()) if -1000 < i < 100000)
        cands += [z3.IntVal(i) for i in first] + [z3.IntVal(i) for i in range(0, 258) if i not in first]
    elif kt == TKey3:
        pool = sorted((ints or set()) | {0, 1, 255})[:12]
        cands += [mkKey3(z3.IntVal(a), z3.IntVal(b), z3.IntVal(c)) for a in pool for b in pool for c in pool]
    out = {}
    seen = set()
    for k in cands:
        kv = model.eval(k, model_completion=True)
        ks = str(kv)
        if ks in seen:
            continue
        seen.add(ks)
        if pyval(model, z3.Select(dom, kv)) is True:
            key = describe_value(I, model, Sym(kv, "key3" if kt == TKey3 else kt.kind), heap, depth + 1, ints)
            out[str(key)] = describe_value(I, model, I.wrap(z3.Select(mp, kv), vt, None) if vt.kind not in ("proto", "enum") else None, heap, depth + 1, ints)
        if len(out) >= 14:
            break
    return {"__dict__": out}


def _collect_ints(x, acc):
    if isinstance(x, bool):
        return
    if isinstance(x, int):
        acc.add(x)
    elif isinstance(x, dict):
        for v in x.values():
            _collect_ints(v, acc)
    elif isinstance(x, (list, tuple)):
        for v in x:
            _collect_ints(v, acc)


def describe_model(I, model):
    out = _describe_model(I, model, model_ints(model))
    more = set()
    _collect_ints(out, more)  # numbers the model uses (message fields, ids): try them as dict keys in a second pass
    return _describe_model(I, model, model_ints(model) | more)


def _describe_model(I, model, ints):
    heap0 = I.c.wf_snaps[0] if I.c.wf_snaps else I.c.heap
    out = {}
    for name, v in I.c.env.items():
        if callable(v) and not isinstance(v, (Sym, Obj)):
            continue
        try:
            out[name] = describe_value(I, model, v, heap0, 0, ints)
        except Exception as e:  # noqa: BLE001
            out[name] = f"<undescribed: {e!r}>"
    for g, srt in I.w.ghost_sorts.items():
        if srt == IntS:
            out[g] = pyval(model, heap0.get(g, srt))
    return out
