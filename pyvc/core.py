"""pyvc core: values, symbolic heap and the symbolic interpreter.

The interpreter executes the *real* statement lists of /repo (parsed with ast on
every run) over values that are either concrete Python data or z3 terms.  Paths
are explored by decision-trace replay: a path is a list of Boolean decisions; a
fork re-runs the unit from the start with a longer prefix.  See DESIGN.md §3.
"""
from __future__ import annotations

import ast
import itertools

import z3

# ----------------------------------------------------------------------------
# sorts and static types

Ref = z3.DeclareSort("Ref")
IntS = z3.IntSort()
BoolS = z3.BoolSort()
StrS = z3.StringSort()
FloatS = z3.DeclareSort("PyFloat")
BytesS = z3.DeclareSort("PyBytes")
JsonS = z3.DeclareSort("Json")
Key3, mkKey3, _k3acc = z3.TupleSort("Key3", [IntS, IntS, IntS])
k3n, k3c, k3t = _k3acc


class T:
    """Static type of a heap field / parameter (assumption A-TYPES)."""

    def __init__(self, kind, *args):
        self.kind = kind
        self.args = args

    def __repr__(self):
        return self.kind + (repr(list(self.args)) if self.args else "")

    def __eq__(self, o):
        return isinstance(o, T) and self.kind == o.kind and self.args == o.args

    def __hash__(self):
        return hash((self.kind, self.args))


TInt, TBool, TStr, TFloat, TKey3, TProto, TBytes, TJson = (
    T("int"), T("bool"), T("str"), T("float"), T("key3"), T("proto"), T("bytes"), T("json"))


def TObj(name):
    return T("obj", name)


def TDict(k, v):
    return T("dict", k, v)


def TOpt(t):
    return T("opt", t)


def TEnum(name):
    return T("enum", name)


def TOpaque(name):
    return T("opaque", name)


def sort_of(t: T):
    k = t.kind
    if k in ("int", "proto", "enum"):
        return IntS
    if k == "bool":
        return BoolS
    if k == "str":
        return StrS
    if k == "float":
        return FloatS
    if k == "bytes":
        return BytesS
    if k == "json":
        return JsonS
    if k == "key3":
        return Key3
    if k in ("obj", "dict", "opaque"):
        return Ref
    if k == "set":
        return z3.ArraySort(sort_of(t.args[0]), BoolS)
    if k == "opt":
        return sort_of(t.args[0])
    raise Unsupported(f"sort_of {t}")


def tname(t: T):
    if t.kind in ("obj", "opaque", "enum"):
        return t.args[0]
    if t.kind == "dict":
        return f"dict[{tname(t.args[0])},{tname(t.args[1])}]"
    if t.kind == "opt":
        return f"opt[{tname(t.args[0])}]"
    return t.kind


# ----------------------------------------------------------------------------
# engine signals


class Unsupported(Exception):
    """A construct outside the supported subset: a non-verdict, never a pass."""


class Infeasible(Exception):
    pass


class Poison:
    """What a module- or class-level name is bound to when its defining expression is outside the subset: the definition does not
    stop the run, every use of the name does (Unsupported, so the unit that uses it falls back to the bounded stand-in)."""

    def __init__(self, reason):
        self.reason = reason

    def __repr__(self):
        return f"<poison: {self.reason}>"


def unpoisoned(v):
    if isinstance(v, Poison):
        raise Unsupported(v.reason)
    return v


class PathEnd(Exception):
    """The path is cut here (loop back-edge after invariant check, yield, ...)."""

    def __init__(self, kind, value=None):
        self.kind = kind
        self.value = value


class ReturnSig(Exception):
    def __init__(self, value):
        self.value = value


class RaiseSig(Exception):
    def __init__(self, exc):
        self.exc = exc


class BreakSig(Exception):
    pass


class ContinueSig(Exception):
    pass


# ----------------------------------------------------------------------------
# values


class Sym:
    __slots__ = ("term", "kind")

    def __init__(self, term, kind):
        self.term = term
        self.kind = kind  # int bool str float key3 bytes json

    def __repr__(self):
        return f"Sym<{self.kind}:{self.term}>"


class Obj:
    __slots__ = ("ref", "typ")

    def __init__(self, ref, typ: T):
        self.ref = ref
        self.typ = typ

    def __repr__(self):
        return f"Obj<{tname(self.typ)}:{self.ref}>"


class ModuleVal:
    def __init__(self, name, ns=None, external=False):
        self.name = name
        self.ns = ns if ns is not None else {}
        self.external = external

    def __repr__(self):
        return f"<module {self.name}>"


class ExternalName:
    """A name inside a module that is not part of the repository (library)."""

    def __init__(self, dotted):
        self.dotted = dotted

    def __repr__(self):
        return f"<ext {self.dotted}>"


class ClassVal:
    def __init__(self, name, bases, ns, module, qualname=None):
        self.name = name
        self.bases = bases
        self.ns = ns
        self.module = module
        self.qualname = qualname or f"{module}.{name}"
        self.is_dataclass = False
        self.dc_fields = []  # (name, default_expr_value or MISSING, factory)
        self.enum_members = None  # name -> EnumMember (incl. aliases)
        self.enum_canon = None  # value -> EnumMember (first defined)

    def mro(self):
        out = [self]
        for b in self.bases:
            if isinstance(b, ClassVal):
                for c in b.mro():
                    if c not in out:
                        out.append(c)
        return out

    def ext_bases(self):
        out = []
        for c in self.mro():
            for b in c.bases:
                if isinstance(b, ExternalName):
                    out.append(b.dotted)
        return out

    def lookup(self, name, after=None):
        mro = self.mro()
        if after is not None:
            mro = mro[mro.index(after) + 1:]
        for c in mro:
            if name in c.ns:
                return unpoisoned(c.ns[name]), c
        return None, None

    def is_subclass_of(self, other):
        if other is self:
            return True
        if isinstance(other, ClassVal):
            return other in self.mro()
        return False

    def is_exception(self):
        return any(isinstance(c, BuiltinExc) for c in self.mro())

    def __repr__(self):
        return f"<class {self.qualname}>"


class BuiltinExc(ClassVal):
    """Builtin / dependency exception class (hierarchy table in lib.py)."""

    def __init__(self, name, bases):
        super().__init__(name, bases, {}, "builtins", qualname=name)


class EnumMember:
    def __init__(self, cls, name, value):
        self.cls = cls
        self.name = name
        self.value = value

    def __repr__(self):
        return f"<{self.cls.name}.{self.name}: {self.value}>"


class FuncVal:
    def __init__(self, node, qualname, module, closure, defaults, kwdefaults, cls=None):
        self.node = node
        self.name = node.name
        self.qualname = qualname
        self.module = module
        self.closure = closure  # enclosing Frame or None
        self.defaults = defaults
        self.kwdefaults = kwdefaults
        self.cls = cls  # defining class (for super())
        self.is_async = isinstance(node, ast.AsyncFunctionDef)
        self.is_gen = any(isinstance(n, (ast.Yield, ast.YieldFrom)) for n in ast.walk(node))
        self.marks = {}

    def __repr__(self):
        return f"<function {self.qualname}>"


class BoundMethod:
    def __init__(self, func, selfv):
        self.func = func
        self.selfv = selfv

    def __repr__(self):
        return f"<bound {self.func} of {self.selfv}>"


class ClassMethodVal:
    def __init__(self, func):
        self.func = func


class StaticMethodVal:
    def __init__(self, func):
        self.func = func


class PropertyVal:
    def __init__(self, fget, fset=None):
        self.fget = fget
        self.fset = fset

    def setter(self, f):
        return PropertyVal(self.fget, f)


class SuperProxy:
    def __init__(self, cls, selfv):
        self.cls = cls
        self.selfv = selfv


class ExcObj:
    def __init__(self, cls, args=()):
        self.cls = cls
        self.args = tuple(args)
        self.attrs = {}
        self.cause = None
        self.site = None

    def __repr__(self):
        return f"<exc {self.cls.name} {self.attrs}>"


class CoroVal:
    def __init__(self, func, args, kwargs, runner=None):
        self.func = func
        self.args = args
        self.kwargs = kwargs
        self.runner = runner  # python callable(interp) for library coroutines


class Builtin:
    def __init__(self, name, fn):
        self.name = name
        self.fn = fn

    def __repr__(self):
        return f"<builtin {self.name}>"


class LibObj:
    """A library object living in the concrete world (schema field decl, logger,...)."""

    def __init__(self, kind, **kw):
        self.kind = kind
        self.__dict__.update(kw)

    def __repr__(self):
        return f"<lib {self.kind}>"


MISSING = object()
LOOP_CARRIED = object()  # a local whose value after a summarised loop depends on how often the loop ran: reading it is outside the subset


def stored_names(stmts):
    """Names bound by the statements themselves (not by nested function / class / comprehension scopes)."""
    out = set()

    def walk(n):
        if isinstance(n, (ast.FunctionDef, ast.AsyncFunctionDef, ast.ClassDef)):
            out.add(n.name)
            return
        if isinstance(n, (ast.Lambda, ast.ListComp, ast.SetComp, ast.DictComp, ast.GeneratorExp)):
            for x in ast.walk(n):  # the walrus operator binds in the enclosing function
                if isinstance(x, ast.NamedExpr):
                    out.add(x.target.id)
            return
        if isinstance(n, ast.Name) and isinstance(n.ctx, (ast.Store, ast.Del)):
            out.add(n.id)
        elif isinstance(n, ast.ExceptHandler) and n.name:
            out.add(n.name)
        elif isinstance(n, (ast.Import, ast.ImportFrom)):
            for a in n.names:
                out.add((a.asname or a.name).split(".")[0])
        elif isinstance(n, (ast.MatchAs, ast.MatchStar)) and n.name:
            out.add(n.name)
        for ch in ast.iter_child_nodes(n):
            walk(ch)
    for s in stmts:
        walk(s)
    return out


def function_locals(func):
    """The names the compiler treats as locals of `func`: its parameters and every name its body binds, minus global/nonlocal."""
    if "locals" not in func.marks:
        a = func.node.args
        names = {x.arg for x in a.posonlyargs + a.args + a.kwonlyargs}
        for x in (a.vararg, a.kwarg):
            if x is not None:
                names.add(x.arg)
        names |= stored_names(func.node.body)
        declared = set()

        def decl(n):
            if isinstance(n, (ast.FunctionDef, ast.AsyncFunctionDef, ast.ClassDef, ast.Lambda)):
                return
            if isinstance(n, (ast.Global, ast.Nonlocal)):
                declared.update(n.names)
            for ch in ast.iter_child_nodes(n):
                decl(ch)
        for s in func.node.body:
            decl(s)
        func.marks["locals"] = names - declared
    return func.marks["locals"]


class Frame:
    def __init__(self, func, globals_, parent=None):
        self.func = func
        self.globals = globals_
        self.parent = parent
        self.locals = {}
        self.exc_stack = []
        self.spec = False  # spec-mode evaluation (total, no forks)
        self.heap = None  # spec-mode: heap snapshot to read from


# ----------------------------------------------------------------------------
# heap


class Heap:
    def __init__(self, init):
        self.cur = {}
        self.init = init  # shared: name -> initial constant

    def get(self, name, sort):
        if name in self.cur:
            return self.cur[name]
        if name not in self.init:
            self.init[name] = z3.Const(name + "@0", sort)
        return self.init[name]

    def set(self, name, term):
        self.cur[name] = term

    def snapshot(self):
        h = Heap(self.init)
        h.cur = dict(self.cur)
        return h


def arr(dom_sort, rng_sort):
    return z3.ArraySort(dom_sort, rng_sort)


# ----------------------------------------------------------------------------
# path context


BASE_AXIOMS = []  # ground facts about the shared spec functions (filled by lib.py)


class Ctx:
    FEAS_TIMEOUT_MS = 3000

    def __init__(self, decisions=()):
        self.decisions = list(decisions)
        self.taken = []
        self.new_branches = []
        self.solver = z3.Solver()
        self.solver.set("timeout", self.FEAS_TIMEOUT_MS)
        for ax in BASE_AXIOMS:
            self.solver.add(ax)
        self.pc = []
        self.heap = Heap({})
        self.allocs = []  # (ref, type) allocated on this path
        self.wf_snaps = []  # heap snapshots in which the global WF invariant is assumed
        self._ctr = itertools.count()
        self.notes = []
        self.obligs = []
        self.env = {}  # unit-level named values (params, lets)
        self.feas_unknown = 0
        self.n_fresh = 0
        self.prologue_fresh = None  # number of fresh symbols created before the body ran (the symbolic pre-state)

    def fresh(self, name, sort):
        k = next(self._ctr)
        self.n_fresh = k + 1
        return z3.Const(f"{name}!{k}", sort)

    def assume(self, f):
        if isinstance(f, bool):
            if not f:
                raise Infeasible()
            return
        self.pc.append(f)
        self.solver.add(f)

    def note(self, s):
        self.notes.append(s)

    def _feasible(self, cond):
        r = self.solver.check(cond)
        if r == z3.unknown:
            self.feas_unknown += 1
            return True
        return r == z3.sat

    def branch(self, cond, note=""):
        """Decide a symbolic Boolean; forks the path when both sides are feasible."""
        if isinstance(cond, bool):
            return cond
        cond = z3.simplify(cond)
        if z3.is_true(cond):
            return True
        if z3.is_false(cond):
            return False
        i = len(self.taken)
        if i < len(self.decisions):
            d = self.decisions[i]
        else:
            ft = self._feasible(cond)
            ff = self._feasible(z3.Not(cond))
            if ft and ff:
                self.new_branches.append(self.taken + [False])
                d = True
            elif ft:
                d = True
            elif ff:
                d = False
            else:
                raise Infeasible()
        self.taken.append(d)
        self.assume(cond if d else z3.Not(cond))
        if note:
            self.note(f"{note}={'T' if d else 'F'}")
        return d

    def choose(self, conds, note=""):
        """Multi-way choice: returns the index of the first condition taken, or len(conds)."""
        for i, c in enumerate(conds):
            if self.branch(c, note and f"{note}[{i}]"):
                return i
        return len(conds)


class Budget(Exception):
    pass


def explore(unit, max_paths=20000, deadline=None, done=None):
    """Run `unit(ctx)` over all feasible paths.  Returns list of (ctx, outcome).  `done` may be passed in so that the paths
    explored before a budget ran out are kept by the caller."""
    import time as _time
    work = [[]]
    done = [] if done is None else done
    while work:
        if deadline is not None and _time.time() > deadline:
            raise Budget(f"unit time budget exhausted after {len(done)} paths ({len(work)} pending)")
        dec = work.pop()
        ctx = Ctx(dec)
        try:
            out = unit(ctx)
        except Infeasible:
            # the siblings forked on this path before it turned out infeasible are still to be explored
            work.extend(ctx.new_branches)
            if ctx.obligs:
                # obligations checked before the path died stay: a call-site precondition that is false on the whole path
                # is assumed after it is checked, which is exactly what makes the path infeasible
                done.append((ctx, "infeasible"))
            continue
        done.append((ctx, out))
        work.extend(ctx.new_branches)
        if len(done) > max_paths:
            raise Unsupported("path explosion")
    return done
