"""JSON-shaped parts of the marshmallow model (Node/Child schemas): filled in by the persistence layer."""
from .core import *  # noqa: F403
from .core import MISSING


def deserialize_json_field(lib, I, fdecl, schema_obj, value, node):
    raise Unsupported(f"deserialisation of field type {fdecl.ftype}")


def schema_load_json(lib, I, schema_obj, cls, data, node):
    raise Unsupported("Schema.load of a non-dict value")


def dump_object(lib, I, schema_obj, cls, obj, fields, node):
    return MISSING
