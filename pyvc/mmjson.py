"""marshmallow on parsed JSON (NodeSchema / ChildSchema): Schema.load of an arbitrary JSON value and dump of heap objects.

A-MM + A-JSON.  A parsed JSON value is explored by *kind* (null, bool, int, float, str, list, dict); a JSON object is a heap
dict with arbitrary content; the elements of a nested Dict field are represented by one arbitrary element, which is enough
for exceptional postconditions (any exception some element raises, an arbitrary element raises).
"""
from __future__ import annotations

import z3

from .core import *  # noqa: F403
from .core import MISSING
from . import lib as L
from . import models as M
from .interp import is_sym

j_of_int = z3.Function("json_of_int", IntS, JsonS)
j_of_str = z3.Function("json_of_str", StrS, JsonS)
j_of_bool = z3.Function("json_of_bool", BoolS, JsonS)
j_null = z3.Const("json_null", JsonS)
j_of_ref = z3.Function("json_of_obj", Ref, JsonS)
j_int = z3.Function("json_int", JsonS, IntS)
j_str = z3.Function("json_str", JsonS, StrS)
j_bool = z3.Function("json_bool", JsonS, BoolS)
j_ref = z3.Function("json_obj", JsonS, Ref)


def to_json_term(I, v):
    if v is None:
        return j_null
    if isinstance(v, bool):
        return j_of_bool(z3.BoolVal(v))
    if isinstance(v, int):
        return j_of_int(z3.IntVal(v))
    if isinstance(v, str):
        return j_of_str(z3.StringVal(v))
    if isinstance(v, Sym):
        if v.kind == "json":
            return v.term
        if v.kind == "int":
            return j_of_int(v.term)
        if v.kind == "str":
            return j_of_str(v.term)
        if v.kind == "bool":
            return j_of_bool(v.term)
    if isinstance(v, Obj):
        return j_of_ref(v.ref)
    if isinstance(v, LibObj) and v.kind in ("json_scalar", "lazy_json"):
        return v.term
    raise Unsupported(f"cannot store {v!r} as a JSON value")


class LazyJson(LibObj):
    """A JSON value whose kind has not been looked at yet (no fork until an operation needs the kind)."""

    def __init__(self, term):
        super().__init__("lazy_json")
        self.term = term
        self.forced = MISSING

    def force(self, I):
        if self.forced is MISSING:
            self.forced = json_value(I, self.term)
        return self.forced

    def is_none(self, I):
        if self.forced is not MISSING:
            return self.forced is None
        if I.c.branch(M.j_kind(self.term) == 0, "json-is-null"):
            self.forced = None
            return True
        return False


def json_value(I, j):
    """Shape of an arbitrary JSON value (forks on its kind)."""
    c = I.c
    c.assume(z3.And(M.j_kind(j) >= 0, M.j_kind(j) <= 6))
    i = c.choose([M.j_kind(j) == x for x in range(6)], "json-kind")
    kind = M.KINDS[i]
    if kind == "null":
        return None
    if kind == "bool":
        return Sym(j_bool(j), "bool")
    if kind == "int":
        return Sym(j_int(j), "int")
    if kind == "str":
        return Sym(j_str(j), "str")
    if kind == "dict":
        d = Obj(j_ref(j), TDict(TStr, TJson))
        c.assume(z3.Select(I.alive(), d.ref))
        return d
    return json_scalar(I, kind, j)


def json_scalar(I, kind, j):
    o = LibObj("json_scalar", jkind=kind, term=j)

    def attr(I2, name, fr, node):
        if kind == "list" and name == "pop":
            def pop(I3, a, k):
                if a and not isinstance(a[0], int) and not is_sym(a[0], "int"):
                    I3.raise_("TypeError")
                raise Unsupported("list.pop on a parsed JSON list")
            return Builtin("list.pop", pop)
        raise RaiseSig(I2.make_exc("AttributeError", site=node))  # float / list have no such attribute

    def contains(I2, x):
        if kind == "float":
            I2.raise_("TypeError")  # argument of type 'float' is not iterable
        return I2.c.fresh("in_list", BoolS)  # list membership: either answer

    def setitem(I2, k, v):
        I2.raise_("TypeError")

    def getitem(I2, k, node):
        I2.raise_("TypeError")
    o.attr, o.contains, o.setitem, o.getitem = attr, contains, setitem, getitem
    return o


# --- operations of the hooks on scalars that are plain Python values after json_value() ------------------------------
# None / bool / int: `"x" in data` -> TypeError (handled in lib.contains below); str: substring test, no .pop -> AttributeError


def deserialize_json_field(lib, I, fdecl, schema_obj, value, node):
    """value: shape produced by json_value (None, Sym bool/int/str, heap dict, json_scalar)."""
    ft = fdecl.ftype
    c = I.c
    if ft == "Bool":
        if is_sym(value, "bool") or isinstance(value, bool):
            return value
        # ints 0/1 and the truthy/falsy strings are accepted, everything else is invalid
        if (is_sym(value, "int") or is_sym(value, "str")) and c.branch(c.fresh("bool_literal", BoolS), "bool-field-literal"):
            return Sym(c.fresh("boolval", BoolS), "bool")
        I.raise_("ValidationError")
    if ft == "Dict":
        if not (isinstance(value, Obj) and value.typ.kind == "dict"):
            I.raise_("ValidationError")
        kf, vf = fdecl.inner
        nested = vf is not None and vf.ftype == "Nested"
        vtype = TObj("Child") if nested else TStr
        out = I.alloc(TDict(TInt, vtype))
        # the accepted content: an arbitrary int-keyed dict of the right value type
        I.d_set_dom(out, c.fresh("rest_dom", arr(IntS, BoolS)))
        I.d_set_map(out, c.fresh("rest_map", arr(IntS, sort_of(vtype))))
        if not nested:
            # keys and values are deserialised by marshmallow's own scalar fields: acceptable or a collected ValidationError, nothing else
            if c.branch(c.fresh("dict_field_invalid", BoolS), "dict-of-scalars-invalid"):
                I.raise_("ValidationError")
            return out
        if not c.branch(I.d_nonempty(value), "json-dict-nonempty"):
            I.d_set_dom(out, z3.K(IntS, z3.BoolVal(False)))
            return out
        # Nested(ChildSchema): the nested schema's hooks are repository code: one arbitrary element stands for all of them
        k = c.fresh("jkey", StrS)
        c.assume(z3.Select(I.d_dom(value), k))
        invalid = c.fresh("some_key_invalid", BoolS)
        elem = LazyJson(z3.Select(I.d_map(value), k))
        hard = False
        try:
            nschema = I.alloc(TObj(vf.inner.name))
            val = I.call(I.get_attr(nschema, "load", None), [elem], {}, None, node)
            kk = c.fresh("ckey", IntS)
            I.d_setitem(out, Sym(kk, "int"), val)
        except RaiseSig as r:
            if r.exc.cls.name != "ValidationError":
                raise
            hard = True
        if hard or c.branch(invalid, "nested-dict-keys-invalid"):
            I.raise_("ValidationError")
        return out
    raise Unsupported(f"deserialisation of field type {ft}")


def deserialize_scalar(lib, I, fdecl, value):
    ft = fdecl.ftype
    if value is None:
        I.raise_("ValidationError")
    if ft in ("Int", "Integer"):
        if is_sym(value, "bool") or isinstance(value, bool):
            I.raise_("ValidationError")
        if is_sym(value, "int") or isinstance(value, int):
            return value
        if is_sym(value, "str") or isinstance(value, str):
            try:
                return lib.b_int(I, [value], {})
            except RaiseSig as r:
                if r.exc.cls.name == "ValueError":
                    I.raise_("ValidationError")
                raise
        if isinstance(value, LibObj) and value.kind == "json_scalar" and value.jkind == "float":
            return Sym(I.c.fresh("truncated", IntS), "int")
        I.raise_("ValidationError")
    if ft in ("Str", "String"):
        if is_sym(value, "str") or isinstance(value, str):
            return value
        I.raise_("ValidationError")
    raise Unsupported(f"scalar field {ft}")


SCALAR_T = {"Int": TInt, "Integer": TInt, "Str": TStr, "String": TStr, "Bool": TBool}


def schema_load_json(lib, I, schema_obj, cls, data, node):
    """Schema.load(data) where data (after pre_load) is a parsed JSON value that is not a Python dict literal.

    Scalar fields are not forked on: a scalar field is either acceptable - then its value is an arbitrary value of the
    field's type that satisfies the declared validators - or it contributes to the collected ValidationError.  No scalar
    field can raise anything else (A-MM).  Dict fields are explored, because the nested schema's hooks are repository code.
    """
    from .mmalgo import schema_hooks
    from .mm import schema_fields
    if isinstance(data, LazyJson):
        data = data.force(I)
    if not (isinstance(data, Obj) and data.typ.kind == "dict"):
        I.raise_("ValidationError", site=node)  # "Invalid input type."
    c = I.c
    fields = schema_fields(cls)
    result = {}
    invalid = c.fresh("some_scalar_field_invalid", BoolS)
    hard_invalid = False
    for name, fdecl in fields:
        if fdecl.ftype in SCALAR_T:
            t = SCALAR_T[fdecl.ftype]
            v = c.fresh(f"fld_{name}", sort_of(t))
            val = I.wrap(v, t)
            for vd in fdecl.validators:  # an accepted value satisfies the validators
                if getattr(vd, "bad_exc", None) and c.branch(c.fresh("rejected_value_formats_broken_template", BoolS), f"{name}-error-template"):
                    I.raise_(vd.bad_exc)  # rejecting a value formats the validator's message: not a ValidationError (not collected)
                if isinstance(vd, LibObj) and vd.kind == "mm_range":
                    if vd.min is not None:
                        c.assume(z3.Or(invalid, v >= vd.min))
                    if vd.max is not None:
                        c.assume(z3.Or(invalid, v <= vd.max))
                elif isinstance(vd, LibObj) and vd.kind == "mm_oneof":
                    c.assume(z3.Or(invalid, z3.Or(*[v == I.to_term(x, t) for x in vd.choices])))
                elif isinstance(vd, LibObj) and vd.kind == "mm_length" and t.kind == "str":
                    from .mmalgo import length_ok
                    c.assume(z3.Or(invalid, length_ok(I, vd, val)))
                else:
                    raise Unsupported(f"validator {vd!r} on field {name}")
            result[name] = val
            continue
        if not c.branch(I.d_contains(data, name), f"has-{name}"):
            if fdecl.required:
                hard_invalid = True
            continue
        raw = json_value(I, z3.Select(I.d_map(data), z3.StringVal(name)))
        try:
            if raw is None:
                I.raise_("ValidationError")
            result[name] = deserialize_json_field(lib, I, fdecl, schema_obj, raw, node)
        except RaiseSig as r:
            if r.exc.cls.name == "ValidationError":
                hard_invalid = True
                continue
            raise
    if hard_invalid or c.branch(invalid, "scalar-fields-or-unknown-keys-invalid"):
        I.raise_("ValidationError", site=node)
    out = result
    for hook in schema_hooks(cls, "post_load"):
        out = I.call(BoundMethod(hook, schema_obj), [out], {}, None, node)
    return out


def dump_object(lib, I, schema_obj, cls, obj, fields, node):
    if tname(obj.typ) in ("Node", "Child"):
        # the JSON-ready dict of a registry object, as an abstract value of the object's state (A-MM; refined by C13's field obligations)
        return Sym(M.dumped_node(obj.ref), "json")
    return MISSING
