"""marshmallow 3.26 Schema model (A-MM): context, declared fields, load and dump."""
from __future__ import annotations

import z3

from .core import *  # noqa: F403
from .core import MISSING
from . import lib as L
from .interp import is_sym


def schema_fields(cls):
    """Declared fields of a Schema class in load order (Meta.fields when given, else declaration order)."""
    decls = {}
    for c in reversed(cls.mro()):
        for k, v in c.ns.items():
            unpoisoned(v)  # a field whose declaration is outside the subset: so is every load / dump of the schema
            if isinstance(v, LibObj) and v.kind == "mm_field":
                decls[k] = v
    meta = cls.ns.get("Meta")
    if isinstance(meta, ClassVal) and "fields" in meta.ns:
        order = list(meta.ns["fields"])
        return [(k, decls[k]) for k in order]
    return list(decls.items())


def schema_hooks(cls, kind):
    out = []
    for c in cls.mro():
        for k, v in c.ns.items():
            if isinstance(v, FuncVal) and v.marks.get("hook") == kind:
                out.append(v)
    return out


def schema_attr(lib, I, o, cls, name, fr, node):
    if name == "context":
        ctx = LibObj("schema_context", obj=o)

        def setitem(I2, k, v):
            if k != "protocol":
                raise Unsupported("schema context key")
            I2.write_field(o, "ctx_protocol", v)

        def getitem(I2, k, n2):
            if k != "protocol":
                raise Unsupported("schema context key")
            v = I2.read_field(o, "ctx_protocol", None)
            if v is None:
                raise RaiseSig(I2.make_exc("KeyError", site=n2))
            return v

        def attr(I2, nm, fr2, n2):
            if nm == "get":
                def ctx_get(I3, a, k):
                    if a[0] != "protocol":
                        # the modelled context holds the protocol only: any other key is state this model does not track
                        raise Unsupported(f"schema context key {a[0]!r}")
                    return I3.read_field(o, "ctx_protocol", None)
                return Builtin("context.get", ctx_get)
            return MISSING
        ctx.setitem, ctx.getitem, ctx.attr = setitem, getitem, attr
        return ctx
    if name == "fields":
        return [k for k, _ in schema_fields(cls)]
    if name in ("load", "dump"):
        from . import mmalgo
        fn = mmalgo.schema_load if name == "load" else mmalgo.schema_dump

        def call(I2, a, k):
            # modular use: a contract proved on the harness `schema.load(data)` for this schema class stands for the call
            h = I2.w.functions.get(f"harness.{cls.name}_{name}")
            ct = I2.w.contracts.get(f"harness.{cls.name}_{name}") if h is not None else None
            if ct is not None and I2.use_contracts and I2.top is not h and (I2.contract_filter is None or I2.contract_filter(h.qualname)):
                return I2.w.spec.apply_contract(I2, ct, h, [o] + list(a), k, None, node)
            return fn(lib, I2, o, cls, a, k, node)
        return Builtin(f"Schema.{name}", call)
    return MISSING
