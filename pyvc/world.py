"""Loads the repository source into a concrete 'world' of modules/classes/functions.

Module bodies are interpreted by the same interpreter with fully concrete values
(DESIGN.md §3.2): class statements, enum tables, constants, decorator
applications and closures are produced by *running* the repository's own
top-level code, not by pattern matching.
"""
from __future__ import annotations

import ast
import os

from .core import *  # noqa: F403
from .core import MISSING
from .interp import Interp

PKG = "aiomysensors"


class World:
    def __init__(self, repo=None):
        self.repo = repo or os.environ.get("VERIF_REPO", "/repo")
        self.src = os.path.join(self.repo, "src")
        self.modules = {}
        self.asts = {}
        self.sources = {}
        self.classes = {}
        self.functions = {}  # qualname -> FuncVal
        self.contracts = {}
        self.extra_contracts = []
        self.assumed = set()
        self.loops = {}
        self.spec_globals = {}
        self.ghost_sorts = {}
        self.types = None
        self.spec = None
        from . import lib as libmod
        self.lib = libmod.Lib(self)
        self._loading_ctx = Ctx()
        self._interp = Interp(self, self._loading_ctx)
        self._interp.use_contracts = False

    # -- module loading ------------------------------------------------------
    def path_of(self, modname):
        p = os.path.join(self.src, *modname.split("."))
        if os.path.isdir(p):
            return os.path.join(p, "__init__.py"), True
        return p + ".py", False

    def is_repo_module(self, modname):
        if not (modname == PKG or modname.startswith(PKG + ".")):
            return False
        p, _ = self.path_of(modname)
        return os.path.exists(p)

    def load(self, modname):
        if modname in self.modules:
            return self.modules[modname]
        if "." in modname:  # parent package first, like CPython
            parent = modname.rsplit(".", 1)[0]
            if parent not in self.modules and parent != PKG:
                self.load(parent)
                if modname in self.modules:
                    return self.modules[modname]
        path, is_pkg = self.path_of(modname)
        with open(path) as f:
            src = f.read()
        tree = ast.parse(src, filename=path)
        self.asts[modname] = tree
        self.sources[modname] = path
        m = ModuleVal(modname)
        m.is_pkg = is_pkg
        m.ns["__name__"] = modname
        m.ns["__package__"] = modname if is_pkg else modname.rsplit(".", 1)[0]
        self.modules[modname] = m
        fr = Frame(None, m.ns)
        fr.locals = m.ns
        fr.module = modname
        fr.qual = modname
        self._interp.block(tree.body, fr)
        return m

    def exec_import(self, I, s, fr):
        cur = fr.globals.get("__name__", "")
        pkg = fr.globals.get("__package__", "")
        if isinstance(s, ast.Import):
            for a in s.names:
                name = a.name
                target = a.asname or name.split(".")[0]
                if self.is_repo_module(name):
                    fr.locals[target] = self.load(name)
                else:
                    fr.locals[target] = self.lib.external_module(name if a.asname else name.split(".")[0])
            return
        mod = s.module or ""
        if s.level:
            base = pkg.split(".")
            if s.level > 1:
                base = base[: -(s.level - 1)]
            mod = ".".join(base + ([mod] if mod else []))
        if mod == "__future__":
            return
        for a in s.names:
            target = a.asname or a.name
            if self.is_repo_module(mod):
                sub = f"{mod}.{a.name}"
                m = self.load(mod)
                if a.name in m.ns:
                    fr.locals[target] = m.ns[a.name]
                elif self.is_repo_module(sub):
                    fr.locals[target] = self.load(sub)
                else:
                    raise Unsupported(f"cannot import {a.name} from {mod} (cycle?) in {cur}")
            else:
                fr.locals[target] = self.lib.external_name(f"{mod}.{a.name}")

    # -- functions and classes -------------------------------------------------
    def make_function(self, I, node, fr, cls):
        a = node.args
        defaults = [I.ev(d, fr) for d in a.defaults]
        kwdefaults = [I.ev(d, fr) if d is not None else MISSING for d in a.kw_defaults]
        in_class = getattr(fr, "is_class_body", False)
        in_func = fr.func is not None
        qual = f"{fr.qual}.{node.name}" if hasattr(fr, "qual") else f"{fr.func.qualname}.{node.name}"
        if any(isinstance(d, ast.Attribute) and d.attr == "setter" for d in node.decorator_list):
            qual += ".setter"
        module = fr.globals.get("__name__")
        f = FuncVal(node, qual, module, fr if in_func else None, defaults, kwdefaults, None)
        if in_class:
            fr.created.append(f)
        val = f
        for d in reversed(node.decorator_list):
            dv = I.ev(d, fr)
            val = I.call(dv, [val], {}, fr, d)
        inner = val.func if isinstance(val, (ClassMethodVal, StaticMethodVal)) else val
        if isinstance(inner, FuncVal) and inner is not f:
            f.qualname = qual + ".__wrapped__"
            inner.qualname = qual
            inner.wraps = f
        for fv in {f, inner}:
            if isinstance(fv, FuncVal):
                self.functions[fv.qualname] = fv
        return val

    def make_class(self, I, node, fr):
        module = fr.globals.get("__name__")
        bases = [I.ev(b, fr) for b in node.bases]
        ns = {}
        cf = Frame(None, fr.globals)
        cf.locals = ns
        cf.is_class_body = True
        cf.created = []
        outer = getattr(fr, "qual", None) or (fr.func.qualname if fr.func else module)
        cf.qual = f"{outer}.{node.name}"
        cf.ann = []
        # record annotated fields for dataclasses
        I.block(node.body, cf)
        cls = ClassVal(node.name, bases, ns, module, qualname=cf.qual)
        for f in cf.created:
            f.cls = cls
        ext = cls.ext_bases()
        if any(b in ("enum.IntEnum", "enum.Enum") for b in ext):
            cls.enum_members, cls.enum_canon = {}, {}
            for st in node.body:
                if isinstance(st, ast.Assign) and len(st.targets) == 1 and isinstance(st.targets[0], ast.Name):
                    nm = st.targets[0].id
                    if nm.startswith("_"):
                        continue
                    v = unpoisoned(ns[nm])  # a member whose value is outside the subset: so is the whole table
                    if v in cls.enum_canon:
                        cls.enum_members[nm] = cls.enum_canon[v]  # alias
                    else:
                        m = EnumMember(cls, nm, v)
                        cls.enum_members[nm] = m
                        cls.enum_canon[v] = m
        # dataclass field declarations (AnnAssign order)
        for st in node.body:
            if isinstance(st, ast.AnnAssign) and isinstance(st.target, ast.Name):
                nm = st.target.id
                default, factory, init = MISSING, MISSING, True
                if st.value is not None:
                    v = ns.get(nm)
                    if isinstance(v, LibObj) and v.kind == "dc_field":
                        default, factory, init = v.default, v.default_factory, v.init
                        if default is MISSING:
                            ns.pop(nm, None)
                        else:
                            ns[nm] = default
                    else:
                        default = v
                cls.dc_fields.append((nm, default, factory, init))
        val = cls
        for d in reversed(node.decorator_list):
            val = I.call(I.ev(d, fr), [val], {}, fr, d)
        if cls.name not in self.classes:
            self.classes[cls.name] = cls
        self.classes[cls.qualname] = cls
        return val

    def class_by_name(self, name):
        return self.classes.get(name)

    def protocol_modules(self):
        base = f"{PKG}.model.protocol."
        return [self.modules[base + n] for n in ("protocol_14", "protocol_15", "protocol_20", "protocol_21", "protocol_22")]

    def enum_members_of(self, name):
        cls = self.classes[name]
        return [cls.enum_canon[v] for v in cls.enum_canon]

    def func(self, qualname):
        return self.functions[qualname]

    def nested_function(self, outer_qualname, name):
        """The function `name` defined inside the body of `outer_qualname` (closure variables are supplied by the unit)."""
        outer = self.functions[outer_qualname]
        for st in ast.walk(outer.node):
            if isinstance(st, (ast.FunctionDef, ast.AsyncFunctionDef)) and st.name == name and st is not outer.node:
                q = f"{outer_qualname}.{name}"
                f = FuncVal(st, q, outer.module, None, [], [MISSING] * len(st.args.kwonlyargs), None)
                self.functions[q] = f
                return f
        # the closure may have been turned into a method or a module-level function of the same name (leading underscores aside):
        # the unit keeps its name and its contract; the moved function takes what the closure captured as parameters
        owner = outer_qualname.rsplit(".", 1)[0]
        cands = [f for q2, f in self.functions.items()
                 if q2.rsplit(".", 1)[-1].lstrip("_") == name.lstrip("_") and (q2.startswith(owner + ".") or q2.rsplit(".", 1)[0] == outer.module)
                 and f.node is not outer.node]
        if len(cands) == 1:
            q = f"{outer_qualname}.{name}"
            f = FuncVal(cands[0].node, q, outer.module, getattr(cands[0], "cls", None), [], [MISSING] * len(cands[0].node.args.kwonlyargs), None)
            self.functions[q] = f
            return f
        raise Unsupported(f"{outer_qualname} has no nested function {name}")

    def mark_shared_state(self):
        """Containers that live in a module or class namespace outlive a call: code that *mutates* one keeps state between
        calls (a cache, a registry on the side) which no single-call contract over the documented state can see.  They are
        recorded here; the interpreter refuses to mutate them (the unit is then outside the subset, not silently wrong)."""
        self.shared_ids = set()
        seen = set()

        def mark(v):
            if isinstance(v, LibObj) and v.kind == "local_dict":
                v.shared = True
            elif isinstance(v, (dict, list, set)):
                self.shared_ids.add(id(v))

        def walk_class(c):
            if id(c) in seen:
                return
            seen.add(id(c))
            for v in c.ns.values():
                mark(v)
        for m in self.modules.values():
            for v in getattr(m, "ns", {}).values():
                mark(v)
                if isinstance(v, ClassVal):
                    walk_class(v)

    def check_not_shared(self, container, what):
        if getattr(container, "shared", False) or id(container) in getattr(self, "shared_ids", ()):
            raise Unsupported(f"{what} of a module-level / class-level container: state kept between calls outside the documented state")

    def make_harness(self, name, src, module=PKG + ".gateway"):
        """A sidecar driver function (not repository code): it only *calls* the code under contract."""
        tree = ast.parse(src)
        node = tree.body[0]
        q = f"harness.{name}"
        f = FuncVal(node, q, module, None, [], [MISSING] * len(node.args.kwonlyargs), None)
        self.functions[q] = f
        return f


def load_world(repo=None):
    w = World(repo)
    from . import spec as specmod
    w.spec = specmod
    import importlib
    import sys
    here = os.path.dirname(os.path.dirname(os.path.abspath(__file__)))
    if here not in sys.path:
        sys.path.insert(0, here)
    w.types = importlib.import_module("contracts.types")
    sf = importlib.import_module("contracts.specfuncs")
    w.spec_globals = sf.SPEC_GLOBALS
    w.ghost_sorts = sf.GHOST_SORTS
    from . import concretise
    w.describe_model = concretise.describe_model
    for m in ("gateway", "persistence", "transport", "transport.tcp", "transport.serial", "transport.mqtt",
              "model.protocol", "model.node", "model.message", "exceptions"):
        w.load(f"{PKG}.{m}")
    w.mark_shared_state()
    return w
