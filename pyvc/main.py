"""CLI: python -m pyvc.main Cxx [--tier quick|thorough] [--replay file]"""
import argparse
import importlib
import json
import os
import sys
import traceback

VERIF = os.path.dirname(os.path.dirname(os.path.abspath(__file__)))
sys.path.insert(0, VERIF)


def main():
    ap = argparse.ArgumentParser()
    ap.add_argument("prop")
    ap.add_argument("--tier", default=os.environ.get("VERIF_TIER", "quick"))
    ap.add_argument("--replay")
    a = ap.parse_args()
    seed = int(os.environ.get("VERIF_SEED", "0") or 0)
    os.chdir(VERIF)
    try:
        from pyvc.world import load_world
        from pyvc import runner
        world = load_world()
        world.tier = a.tier
        mod = importlib.import_module(f"props.{a.prop}")
        if a.replay:
            with open(a.replay) as f:
                rp = json.load(f)
            ob = {"name": rp["obligation"], "unit": rp["unit"], "model": rp["counter_model"], "path": rp["path"]}
            res = mod.replay(world, ob)
            print(json.dumps(res, indent=1, default=str))
            sys.exit(1 if res and res.get("confirmed") else 0)
        code = runner.check_property(mod, world, tier=a.tier, seed=seed)
    except SystemExit:
        raise
    except Exception:  # noqa: BLE001
        traceback.print_exc()
        print(f"ENGINE-ERROR property={a.prop}: checker crashed")
        code = 3
    sys.exit(code)


if __name__ == "__main__":
    main()
