"""Models of third-party / stdlib calls (assumed contracts, DESIGN.md §5)."""
from __future__ import annotations

import z3

from .core import *  # noqa: F403
from .core import MISSING
from . import lib as L


def install(lib):
    E = lib.ext_calls

    # ---- logging: no-ops assumed not to raise
    E["logging.getLogger"] = lambda I, a, k, fr, n: LibObj("logger")

    # ---- marshmallow declarations (A-MM); the load/dump algorithm is in mm.py
    def field(ftype):
        def mk(I, a, k, fr, n):
            v = k.get("validate")
            vals = [] if v is None else (list(v) if isinstance(v, (list, tuple)) else [v])
            inner = None
            if ftype == "Dict":
                inner = (k.get("keys"), k.get("values"))
            if ftype == "Nested":
                inner = a[0]
            return LibObj("mm_field", fieldcls=None, ftype=ftype, required=k.get("required", False), validators=vals, inner=inner)
        return mk
    for ft in ("Int", "Str", "Bool", "Dict", "Nested", "Integer", "String"):
        E[f"marshmallow.fields.{ft}"] = field(ft)

    def v_range(I, a, k, fr, n):
        return LibObj("mm_range", min=k.get("min"), max=k.get("max"), error=k.get("error"),
                      call=lambda I2, a2, k2, fr2, n2, kk=k: _range_call(I2, kk, a2[0]))
    E["marshmallow.validate.Range"] = v_range
    E["marshmallow.validate.OneOf"] = lambda I, a, k, fr, n: LibObj("mm_oneof", choices=tuple(a[0]) if a else tuple(k["choices"]))

    # ---- clock (A-CLOCK)
    def localtime(I, a, k, fr, n):
        lib.tick += 1
        now = I.c.fresh("now", IntS)
        I.c.heap.set("ghost.clock_now", now)
        return LibObj("struct_time", tick=now)
    E["time.localtime"] = localtime

    def timegm(I, a, k, fr, n):
        t = a[0]
        if not (isinstance(t, LibObj) and t.kind == "struct_time"):
            raise Unsupported("timegm of non-localtime value")
        return Sym(L.local_epoch(t.tick), "int")
    E["calendar.timegm"] = timegm

    def uuid4(I, a, k, fr, n):
        u = LibObj("uuid")
        u.attr = lambda I2, name, fr2, n2: Sym(I2.c.fresh("uuid_int", IntS), "int") if name == "int" else MISSING
        return u
    E["uuid.uuid4"] = uuid4


def _range_call(I, k, v):
    """validate.Range(min,max)(value): inclusive bounds, ValidationError otherwise (A-MM)."""
    i = I.intv(v)
    if i is None:
        raise Unsupported("Range validator on non-int")
    conds = []
    if k.get("min") is not None:
        conds.append(i >= k["min"])
    if k.get("max") is not None:
        conds.append(i <= k["max"])
    ok = z3.And(*[I.as_bool(c) for c in conds]) if conds else True
    if not I.c.branch(ok if not isinstance(ok, bool) else ok, "range-ok"):
        I.raise_("ValidationError")
    return v


# ---------------------------------------------------------------------------- AwesomeVersion (A-AV)

def _av_install(lib):
    import ast as _ast
    from .interp import is_sym

    def av_new(I, a, k, fr, n):
        s = a[0]
        if isinstance(s, LibObj) and s.kind == "awesomeversion":
            return s
        if not (isinstance(s, str) or is_sym(s, "str")):
            raise Unsupported("AwesomeVersion of a non-string")
        o = LibObj("awesomeversion", s=s)

        def attr(I2, name, fr2, n2, o=o):
            st = I2.to_term(o.s, TStr)
            if name == "valid":
                if isinstance(o.s, str):
                    from awesomeversion import AwesomeVersion as AV
                    return AV(o.s).valid
                return Sym(L.av_valid(st), "bool")
            if name == "section":
                def section(I3, a3, k3):
                    i = a3[0]
                    if isinstance(o.s, str) and isinstance(i, int):
                        from awesomeversion import AwesomeVersion as AV
                        return AV(o.s).section(i)
                    t = L.av_section(st, I3.to_term(i, TInt))
                    I3.c.assume(t >= 0)
                    return Sym(t, "int")
                return Builtin("AwesomeVersion.section", section)
            return MISSING
        o.attr = attr
        return o
    lib.ext_calls["awesomeversion.AwesomeVersion"] = av_new

    def av_compare(I, op, a, b):
        """a >= b etc. as awesomeversion 24.6 defines it (A-AV): string equality, else section-wise comparison
        with missing sections read as 0; unknown strategies raise AwesomeVersionCompareException."""
        if not (isinstance(b, LibObj) and b.kind == "awesomeversion"):
            raise Unsupported("AwesomeVersion compared with a non-version")
        if isinstance(a.s, str) and isinstance(b.s, str):
            from awesomeversion import AwesomeVersion as AV
            import operator
            f = {_ast.GtE: operator.ge, _ast.Gt: operator.gt, _ast.LtE: operator.le, _ast.Lt: operator.lt}[type(op)]
            return f(AV(a.s), AV(b.s))
        if not isinstance(b.s, str):
            raise Unsupported("AwesomeVersion comparison against a symbolic version")
        from awesomeversion import AwesomeVersion as AV
        bv = AV(b.s)
        st = I.to_term(a.s, TStr)
        if not I.c.branch(L.av_valid(st), "av-valid"):
            I.raise_("AwesomeVersionCompareException")
        nb = bv.sections
        k = I.c.choose([L.av_nsec(st) == j for j in (1, 2, 3, 4)], "av-sections")
        if k == 4:
            return Sym(I.c.fresh("av_cmp", BoolS), "bool")
        na = k + 1
        K = max(na, nb)
        sa = [L.av_section(st, z3.IntVal(i)) if i < na else z3.IntVal(0) for i in range(K)]
        sb = [z3.IntVal(bv.section(i)) for i in range(K)]
        gt = z3.BoolVal(False)
        for i in reversed(range(K)):
            gt = z3.Or(sa[i] > sb[i], z3.And(sa[i] == sb[i], gt))
        lt = z3.BoolVal(False)
        for i in reversed(range(K)):
            lt = z3.Or(sa[i] < sb[i], z3.And(sa[i] == sb[i], lt))
        eq = st == z3.StringVal(b.s)
        r = {_ast.GtE: z3.Or(eq, gt), _ast.Gt: z3.And(z3.Not(eq), gt), _ast.LtE: z3.Or(eq, lt), _ast.Lt: z3.And(z3.Not(eq), lt)}[type(op)]
        return I.mk(r, "bool")
    lib.av_compare = av_compare


_install0 = install


def install(lib):  # noqa: F811
    _install0(lib)
    _av_install(lib)
