"""Models of third-party / stdlib calls (assumed contracts, DESIGN.md §5)."""
from __future__ import annotations

import z3

from .core import *  # noqa: F403
from .core import MISSING
from . import lib as L


def install(lib):
    E = lib.ext_calls

    # ---- logging: no-ops assumed not to raise
    E["logging.getLogger"] = lambda I, a, k, fr, n: LibObj("logger")

    # ---- marshmallow declarations (A-MM); the load/dump algorithm is in mm.py
    def field(ftype):
        def mk(I, a, k, fr, n):
            v = k.get("validate")
            vals = [] if v is None else (list(v) if isinstance(v, (list, tuple)) else [v])
            inner = None
            if ftype == "Dict":
                inner = (k.get("keys"), k.get("values"))
            if ftype == "Nested":
                inner = a[0]
            return LibObj("mm_field", fieldcls=None, ftype=ftype, required=k.get("required", False), validators=vals, inner=inner)
        return mk
    for ft in ("Int", "Str", "Bool", "Dict", "Nested", "Integer", "String"):
        E[f"marshmallow.fields.{ft}"] = field(ft)

    def v_range(I, a, k, fr, n):
        return LibObj("mm_range", min=k.get("min"), max=k.get("max"), error=k.get("error"),
                      call=lambda I2, a2, k2, fr2, n2, kk=k: _range_call(I2, kk, a2[0]))
    E["marshmallow.validate.Range"] = v_range
    E["marshmallow.validate.OneOf"] = lambda I, a, k, fr, n: LibObj("mm_oneof", choices=tuple(a[0]) if a else tuple(k["choices"]))

    # ---- clock (A-CLOCK)
    def localtime(I, a, k, fr, n):
        lib.tick += 1
        return LibObj("struct_time", tick=I.c.fresh("now", IntS))
    E["time.localtime"] = localtime

    def timegm(I, a, k, fr, n):
        t = a[0]
        if not (isinstance(t, LibObj) and t.kind == "struct_time"):
            raise Unsupported("timegm of non-localtime value")
        return Sym(L.local_epoch(t.tick), "int")
    E["calendar.timegm"] = timegm

    def uuid4(I, a, k, fr, n):
        u = LibObj("uuid")
        u.attr = lambda I2, name, fr2, n2: Sym(I2.c.fresh("uuid_int", IntS), "int") if name == "int" else MISSING
        return u
    E["uuid.uuid4"] = uuid4


def _range_call(I, k, v):
    """validate.Range(min,max)(value): inclusive bounds, ValidationError otherwise (A-MM)."""
    i = I.intv(v)
    if i is None:
        raise Unsupported("Range validator on non-int")
    conds = []
    if k.get("min") is not None:
        conds.append(i >= k["min"])
    if k.get("max") is not None:
        conds.append(i <= k["max"])
    ok = z3.And(*[I.as_bool(c) for c in conds]) if conds else True
    if not I.c.branch(ok if not isinstance(ok, bool) else ok, "range-ok"):
        I.raise_("ValidationError")
    return v
