"""Models of third-party / stdlib calls (assumed contracts, DESIGN.md §5)."""
from __future__ import annotations

import z3

from .core import *  # noqa: F403
from .core import MISSING
from . import lib as L


def install(lib):
    E = lib.ext_calls

    # ---- logging: no-ops assumed not to raise
    E["logging.getLogger"] = lambda I, a, k, fr, n: LibObj("logger")

    # ---- marshmallow declarations (A-MM); the load/dump algorithm is in mm.py
    EXPLICIT_DEFAULTS = {"allow_none": False, "load_only": False, "dump_only": False, "data_key": None, "attribute": None}

    def field(ftype):
        def mk(I, a, k, fr, n):
            for kw, val in k.items():
                # an option this model does not implement may only be spelled with its documented default value
                if kw not in ("validate", "required", "keys", "values") and not (kw in EXPLICIT_DEFAULTS and val is EXPLICIT_DEFAULTS[kw]):
                    raise Unsupported(f"marshmallow field option {kw}={val!r}")
            if len(a) > (1 if ftype == "Nested" else 0):
                raise Unsupported("positional marshmallow field arguments")
            v = k.get("validate")
            vals = [] if v is None else (list(v) if isinstance(v, (list, tuple)) else [v])
            inner = None
            if ftype == "Dict":
                inner = (k.get("keys"), k.get("values"))
            if ftype == "Nested":
                inner = a[0]
            return LibObj("mm_field", fieldcls=None, ftype=ftype, required=k.get("required", False), validators=vals, inner=inner)
        return mk
    # (Integer / String / Boolean are the same classes as Int / Str / Bool in marshmallow 3)
    for name, ft in (("Int", "Int"), ("Integer", "Int"), ("Str", "Str"), ("String", "Str"), ("Bool", "Bool"), ("Boolean", "Bool"), ("Dict", "Dict"), ("Nested", "Nested")):
        E[f"marshmallow.fields.{name}"] = field(ft)

    def v_range(I, a, k, fr, n):
        bad = _template_exc(k.get("error"), ("input", "min", "max"))
        return LibObj("mm_range", min=k.get("min"), max=k.get("max"), error=k.get("error"), bad_exc=bad,
                      call=lambda I2, a2, k2, fr2, n2, kk=k: _range_call(I2, kk, a2[0], bad))
    E["marshmallow.validate.Range"] = v_range
    E["marshmallow.validate.OneOf"] = lambda I, a, k, fr, n: LibObj(
        "mm_oneof", choices=tuple(a[0]) if a else tuple(k["choices"]), bad_exc=_template_exc(k.get("error"), ("input", "choices", "labels")))

    def v_length(I, a, k, fr, n):
        """validate.Length(min=None, max=None, *, equal=None, error=None): bounds on len(value) (A-MM)."""
        names = ("min", "max")
        kk = dict(zip(names, a))
        kk.update(k)
        if set(kk) - {"min", "max", "equal", "error"} or len(a) > 2:
            raise Unsupported("validate.Length arguments")
        if kk.get("equal") is not None and (kk.get("min") is not None or kk.get("max") is not None):
            raise RaiseSig(I.make_exc("ValueError", site=n))
        for x in ("min", "max", "equal"):
            if kk.get(x) is not None and not isinstance(kk[x], int):
                raise Unsupported("validate.Length with a non-literal bound")
        return LibObj("mm_length", min=kk.get("min"), max=kk.get("max"), equal=kk.get("equal"),
                      bad_exc=_template_exc(kk.get("error"), ("input", "min", "max", "equal")))
    E["marshmallow.validate.Length"] = v_length

    # ---- clock (A-CLOCK)
    def localtime(I, a, k, fr, n):
        lib.tick += 1
        now = I.c.fresh("now", IntS)
        I.c.heap.set("ghost.clock_now", now)
        return LibObj("struct_time", tick=now)
    E["time.localtime"] = localtime

    def timegm(I, a, k, fr, n):
        t = a[0]
        if not (isinstance(t, LibObj) and t.kind == "struct_time"):
            raise Unsupported("timegm of non-localtime value")
        return Sym(L.local_epoch(t.tick), "int")
    E["calendar.timegm"] = timegm

    def uuid4(I, a, k, fr, n):
        u = LibObj("uuid")
        u.attr = lambda I2, name, fr2, n2: Sym(I2.c.fresh("uuid_int", IntS), "int") if name == "int" else MISSING
        return u
    E["uuid.uuid4"] = uuid4


def _template_exc(error, known):
    """A validator's custom `error` template is formatted with str.format(**known) when the value is rejected (A-MM): a
    placeholder outside `known` makes the rejection raise KeyError / IndexError instead of ValidationError."""
    if error is None:
        return None
    if not isinstance(error, str):
        raise Unsupported("validator error template that is not a literal string")
    import string
    try:
        for _, fname, _, _ in string.Formatter().parse(error):
            if fname is None:
                continue
            base = fname.split(".")[0].split("[")[0]
            if base == "" or base.isdigit():
                return "IndexError"
            if base not in known:
                return "KeyError"
    except ValueError:
        return "ValueError"
    return None


def _range_call(I, k, v, bad_exc=None):
    """validate.Range(min,max)(value): inclusive bounds, ValidationError otherwise (A-MM)."""
    i = I.intv(v)
    if i is None:
        raise Unsupported("Range validator on non-int")
    conds = []
    if k.get("min") is not None:
        conds.append(i >= k["min"])
    if k.get("max") is not None:
        conds.append(i <= k["max"])
    ok = z3.And(*[I.as_bool(c) for c in conds]) if conds else True
    if not I.c.branch(ok if not isinstance(ok, bool) else ok, "range-ok"):
        I.raise_(bad_exc or "ValidationError")
    return v


# ---------------------------------------------------------------------------- AwesomeVersion (A-AV)

def _av_release_facts(I, t):
    """A-AV on release-shaped strings: dec(M) "." dec(m) ["." dec(p) ["." dec(b)]] with non-negative parts is valid and its
    first two sections are M and m (validated against the real library by props/assumptions.py:a_av)."""
    from . import strings
    ps = strings.parts_of(t)
    if not (3 <= len(ps) <= 7 and len(ps) % 2 == 1):
        return
    nums = []
    for i, p in enumerate(ps):
        if i % 2 == 1:
            if p != ".":
                return
        else:
            if isinstance(p, str) or not (z3.is_app(p) and p.decl().name() == "dec"):
                return
            nums.append(p.arg(0))
    nonneg = z3.And(*[x >= 0 for x in nums])
    I.c.assume(z3.Implies(nonneg, z3.And(L.av_valid(t), L.av_section(t, z3.IntVal(0)) == nums[0], L.av_section(t, z3.IntVal(1)) == nums[1],
                                          L.av_nsec(t) == len(nums))))


def _av_install(lib):
    import ast as _ast
    from .interp import is_sym

    def av_new(I, a, k, fr, n):
        s = a[0]
        if isinstance(s, LibObj) and s.kind == "awesomeversion":
            return s
        if not (isinstance(s, str) or is_sym(s, "str")):
            raise Unsupported("AwesomeVersion of a non-string")
        o = LibObj("awesomeversion", s=s)
        if not isinstance(s, str):
            _av_release_facts(I, s.term)

        def attr(I2, name, fr2, n2, o=o):
            st = I2.to_term(o.s, TStr)
            if name == "valid":
                if isinstance(o.s, str):
                    from awesomeversion import AwesomeVersion as AV
                    return AV(o.s).valid
                return Sym(L.av_valid(st), "bool")
            if name == "section":
                def section(I3, a3, k3):
                    i = a3[0]
                    if isinstance(o.s, str) and isinstance(i, int):
                        from awesomeversion import AwesomeVersion as AV
                        return AV(o.s).section(i)
                    t = L.av_section(st, I3.to_term(i, TInt))
                    I3.c.assume(t >= 0)
                    return Sym(t, "int")
                return Builtin("AwesomeVersion.section", section)
            return MISSING
        o.attr = attr
        return o
    lib.ext_calls["awesomeversion.AwesomeVersion"] = av_new

    def av_compare(I, op, a, b):
        """a >= b etc. as awesomeversion 24.6 defines it (A-AV): string equality, else section-wise comparison
        with missing sections read as 0; unknown strategies raise AwesomeVersionCompareException."""
        if not (isinstance(b, LibObj) and b.kind == "awesomeversion"):
            raise Unsupported("AwesomeVersion compared with a non-version")
        if isinstance(a.s, str) and isinstance(b.s, str):
            from awesomeversion import AwesomeVersion as AV
            import operator
            f = {_ast.GtE: operator.ge, _ast.Gt: operator.gt, _ast.LtE: operator.le, _ast.Lt: operator.lt}[type(op)]
            return f(AV(a.s), AV(b.s))
        if not isinstance(b.s, str):
            raise Unsupported("AwesomeVersion comparison against a symbolic version")
        from awesomeversion import AwesomeVersion as AV
        bv = AV(b.s)
        st = I.to_term(a.s, TStr)
        if not I.c.branch(L.av_valid(st), "av-valid"):
            I.raise_("AwesomeVersionCompareException")
        nb = bv.sections
        k = I.c.choose([L.av_nsec(st) == j for j in (1, 2, 3, 4)], "av-sections")
        if k == 4:
            return Sym(I.c.fresh("av_cmp", BoolS), "bool")
        na = k + 1
        K = max(na, nb)
        sa = [L.av_section(st, z3.IntVal(i)) if i < na else z3.IntVal(0) for i in range(K)]
        sb = [z3.IntVal(bv.section(i)) for i in range(K)]
        gt = z3.BoolVal(False)
        for i in reversed(range(K)):
            gt = z3.Or(sa[i] > sb[i], z3.And(sa[i] == sb[i], gt))
        lt = z3.BoolVal(False)
        for i in reversed(range(K)):
            lt = z3.Or(sa[i] < sb[i], z3.And(sa[i] == sb[i], lt))
        eq = st == z3.StringVal(b.s)
        r = {_ast.GtE: z3.Or(eq, gt), _ast.Gt: z3.And(z3.Not(eq), gt), _ast.LtE: z3.Or(eq, lt), _ast.Lt: z3.And(z3.Not(eq), lt)}[type(op)]
        return I.mk(r, "bool")
    lib.av_compare = av_compare


_install0 = install


def install(lib):  # noqa: F811
    _install0(lib)
    _av_install(lib)


# ---------------------------------------------------------------------------- asyncio streams (A-STREAM) and bytes

first_line = z3.Function("first_line", BytesS, BytesS)  # shortest prefix of the unread bytes ending in the terminator
after_line = z3.Function("after_line", BytesS, BytesS)  # the unread bytes after that prefix
has_line = z3.Function("has_line", BytesS, BoolS)  # the unread bytes contain a terminator
bcat = z3.Function("bcat", BytesS, BytesS, BytesS)  # concatenation of byte strings
btake = z3.Function("btake", BytesS, IntS, BytesS)  # the first n unread bytes
bdrop = z3.Function("bdrop", BytesS, IntS, BytesS)  # the unread bytes without their first n

STREAM_GHOST = {"ghost.inb": BytesS, "ghost.outb": BytesS, "ghost.closed": BoolS}


def _exc(I, name, site=None, **attrs):
    e = I.make_exc(name, site=site)
    e.attrs.update(attrs)
    return e


def _streams_install(lib):
    def coro(fn):
        return CoroVal(None, [], {}, runner=fn)

    def reader_attr(I, o, name, fr, node):
        if name == "readuntil":
            def readuntil(I2, a, k):
                def run(I3):
                    c = I3.c
                    inb = c.heap.get("ghost.inb", BytesS)
                    # outcomes of A-STREAM: I/O error, over-long line, EOF mid-line, or the next line
                    o_ = c.choose([c.fresh("io_error", BoolS), c.fresh("overrun", BoolS)], "readuntil")
                    if o_ == 0:
                        raise RaiseSig(_exc(I3, "OSError", node))
                    if o_ == 1:
                        consumed = c.fresh("overrun_consumed", IntS)
                        c.assume(consumed >= 0)
                        raise RaiseSig(_exc(I3, "LimitOverrunError", node, consumed=Sym(consumed, "int")))
                    if not c.branch(has_line(inb), "line-available"):
                        raise RaiseSig(_exc(I3, "IncompleteReadError", node, partial=Sym(inb, "bytes")))
                    c.heap.set("ghost.inb", after_line(inb))
                    return Sym(first_line(inb), "bytes")
                return coro(run)
            return Builtin("StreamReader.readuntil", readuntil)
        if name in ("readexactly", "read"):
            def readn(I2, a, k):
                def run(I3):
                    c = I3.c
                    n = I3.intv(a[0]) if a else None
                    if n is None:
                        raise Unsupported(f"StreamReader.{name} without an int count")
                    n = z3.IntVal(n) if isinstance(n, int) else n
                    inb = c.heap.get("ghost.inb", BytesS)
                    if c.branch(c.fresh("io_error", BoolS), name):
                        raise RaiseSig(_exc(I3, "OSError", node))
                    if name == "readexactly" and c.branch(c.fresh("eof_before_n", BoolS), "readexactly-eof"):
                        raise RaiseSig(_exc(I3, "IncompleteReadError", node, partial=Sym(inb, "bytes")))
                    # A-STREAM: n bytes leave the stream, whether or not they end at a line boundary
                    c.assume(z3.Implies(n == 0, bdrop(inb, n) == inb))
                    c.heap.set("ghost.inb", bdrop(inb, n))
                    return Sym(btake(inb, n), "bytes")
                return coro(run)
            return Builtin(f"StreamReader.{name}", readn)
        return MISSING

    def writer_attr(I, o, name, fr, node):
        def may_fail(label):
            def f(I2, a, k):
                def run(I3):
                    if I3.c.branch(I3.c.fresh(label + "_fails", BoolS), label):
                        raise RaiseSig(_exc(I3, "OSError", node))
                    return None
                return coro(run)
            return f
        if name == "write":
            def write(I2, a, k):
                b = a[0]
                if isinstance(b, LibObj) and b.kind == "pybytes_sym":
                    t = b.term
                elif is_sym_bytes(b):
                    t = b.term
                else:
                    raise Unsupported("writer.write of a non-bytes value")
                out = I2.c.heap.get("ghost.outb", BytesS)
                I2.c.heap.set("ghost.outb", bcat(out, t))
                return None
            return Builtin("StreamWriter.write", write)
        if name == "drain":
            return Builtin("StreamWriter.drain", may_fail("drain"))
        if name == "wait_closed":
            return Builtin("StreamWriter.wait_closed", may_fail("wait_closed"))
        if name == "close":
            def close(I2, a, k):
                if I2.c.branch(I2.c.fresh("close_fails", BoolS), "close"):
                    raise RaiseSig(_exc(I2, "OSError", node))
                I2.c.heap.set("ghost.closed", z3.BoolVal(True))
                return None
            return Builtin("StreamWriter.close", close)
        return MISSING

    lib.opaque_attrs["StreamReader"] = reader_attr
    lib.opaque_attrs["StreamWriter"] = writer_attr

    def open_conn(I, a, k, fr, n):
        def run(I3):
            if I3.c.branch(I3.c.fresh("open_fails", BoolS), "open-connection"):
                raise RaiseSig(_exc(I3, "OSError", n))
            r = I3.alloc(TOpaque("StreamReader"))
            w = I3.alloc(TOpaque("StreamWriter"))
            return (r, w)
        return coro(run)
    lib.ext_calls["asyncio.open_connection"] = open_conn
    lib.ext_calls["serial_asyncio.open_serial_connection"] = open_conn

    # bytes.decode() of a symbolic byte string
    def sym_attr(I, v, name, fr, node):
        if v.kind == "bytes" and name == "decode":
            def decode(I2, a, k):
                if k or (a and a[0] not in ("utf-8", "utf8", "UTF-8")) or len(a) > 1:
                    raise Unsupported("bytes.decode with an encoding other than utf-8 or an errors argument")
                if not I2.c.branch(L.utf8_ok(v.term), "utf8-ok"):
                    raise RaiseSig(_exc(I2, "UnicodeDecodeError", node))
                return Sym(L.utf8_dec(v.term), "str")
            return Builtin("bytes.decode", decode)
        return MISSING
    lib.sym_attr = sym_attr


def is_sym_bytes(v):
    return isinstance(v, Sym) and v.kind == "bytes"


_install1 = install


def install(lib):  # noqa: F811
    _install1(lib)
    _streams_install(lib)


# ---------------------------------------------------------------------------- asyncio queue/tasks, aiomqtt client (A-AIO, A-MQTT)

exc_is_transport_error = z3.Function("exc_is_transport_error", Ref, BoolS)  # class of a stored exception object


def _mqtt_install(lib):
    def coro(fn):
        return CoroVal(None, [], {}, runner=fn)

    def g(I, name):
        return I.c.heap.get(name, I.w.ghost_sorts[name])

    # ---- asyncio.Queue: FIFO log (qlen = number put, qhead = number taken, qat = the items)
    def new_queue(I, a, k, fr, n):
        mx = a[0] if a else k.get("maxsize", 0)
        mi = I.intv(mx)
        if mi is None:
            raise Unsupported("asyncio.Queue(maxsize) that is not an int")
        I.c.heap.set("ghost.qmax", z3.IntVal(mi) if isinstance(mi, int) else mi)  # maxsize <= 0: unbounded
        return I.alloc(TOpaque("Queue"))
    lib.ext_calls["asyncio.Queue"] = new_queue

    def queue_full(I2):
        return z3.And(g(I2, "ghost.qmax") > 0, g(I2, "ghost.qlen") - g(I2, "ghost.qhead") >= g(I2, "ghost.qmax"))

    def queue_attr(I, o, name, fr, node):
        if name == "put_nowait":
            def put(I2, a, k):
                item = a[0]
                if I2.c.branch(queue_full(I2), "queue-full"):
                    I2.raise_("QueueFull")  # A-AIO: put_nowait on a bounded queue that holds maxsize items
                ql = g(I2, "ghost.qlen")
                I2.c.heap.set("ghost.qat", z3.Store(g(I2, "ghost.qat"), ql, item.ref))
                I2.c.heap.set("ghost.qlen", ql + 1)
                return None
            return Builtin("Queue.put_nowait", put)
        if name == "get":
            def get(I2, a, k):
                def run(I3):
                    ql, qh = g(I3, "ghost.qlen"), g(I3, "ghost.qhead")
                    if not I3.c.branch(qh < ql, "queue-nonempty"):
                        raise PathEnd("blocked")  # get() on an empty queue waits; nothing is observed
                    item = z3.Select(g(I3, "ghost.qat"), qh)
                    I3.c.heap.set("ghost.qhead", qh + 1)
                    I3.c.assume(z3.Select(I3.alive(), item))
                    return Obj(item, TObj("ReceivedMessage"))
                return coro(run)
            return Builtin("Queue.get", get)
        if name == "task_done":
            return Builtin("Queue.task_done", lambda I2, a, k: None)
        return MISSING
    lib.opaque_attrs["Queue"] = queue_attr

    # ---- tasks
    def create_task(I, a, k, fr, n):
        t = I.alloc(TOpaque("Task"))
        I.c.heap.set("ghost.tasks", g(I, "ghost.tasks") + 1)
        return t
    lib.ext_calls["asyncio.create_task"] = create_task

    def task_attr(I, o, name, fr, node):
        if name == "cancel":
            return Builtin("Task.cancel", lambda I2, a, k: True)
        return MISSING
    lib.opaque_attrs["Task"] = task_attr

    def await_task(I, v, fr, node):
        # A-AIO: this code awaits a task only right after cancelling it; the task is finished afterwards.  What the awaiter sees
        # depends on where the task was: not started / suspended where CancelledError propagates -> CancelledError in the
        # awaiter; suspended inside a `try ... except CancelledError` that ends the coroutine -> normal return.  Which await sites
        # absorb the cancellation is read off the task body by its own unit (C16/saver-cancellation-table).
        I.c.heap.set("ghost.tasks", g(I, "ghost.tasks") - 1)
        pos = g(I, "ghost.saver_pos")
        absorbs = getattr(I, "task_absorbs_cancel_when_sleeping", False)
        if absorbs and I.c.branch(pos == 2, "saver-was-sleeping"):
            return None
        raise RaiseSig(_exc(I, "CancelledError", node))
    lib.await_opaque = {"Task": await_task}

    # ---- futures kept in locals (asyncio.ensure_future / asyncio.wait / asyncio.wait_for), A-AIO
    def ensure_future(I, a, k, fr, n):
        fut = LibObj("future", coro=a[0], state="pending", value=None, exc=None)
        I.c.heap.set("ghost.tasks", g(I, "ghost.tasks") + 1)  # a task of its own from now on

        def attr(I2, name, fr2, n2):
            if name == "done":
                return Builtin("Future.done", lambda I3, a3, k3: fut.state != "pending")
            if name == "result":
                def result(I3, a3, k3):
                    if fut.state == "pending":
                        raise RaiseSig(_exc(I3, "InvalidStateError", n2))
                    if fut.exc is not None:
                        raise RaiseSig(fut.exc)
                    return fut.value
                return Builtin("Future.result", result)
            if name == "cancel":
                def cancel(I3, a3, k3):
                    if fut.state == "pending":
                        fut.state, fut.exc = "cancelled", _exc(I3, "CancelledError", n2)
                        I3.c.heap.set("ghost.tasks", g(I3, "ghost.tasks") - 1)
                        return True
                    return False
                return Builtin("Future.cancel", cancel)
            return MISSING
        fut.attr = attr
        return fut
    lib.ext_calls["asyncio.ensure_future"] = ensure_future

    def current_task(I, a, k, fr, n):
        # the task running this code: whether (and how often) it has been asked to cancel is the environment's choice
        t = LibObj("current_task")

        def attr(I2, name, fr2, n2):
            if name in ("cancelling", "uncancel"):
                def count(I3, a3, k3):
                    c = I3.c.fresh("cancel_requests", IntS)
                    I3.c.assume(c >= 0)
                    return Sym(c, "int")
                return Builtin(f"Task.{name}", count)
            if name == "cancelled":
                return Builtin("Task.cancelled", lambda I3, a3, k3: False)
            return MISSING
        t.attr = attr
        return t
    lib.ext_calls["asyncio.current_task"] = current_task

    def complete(I3, fut, fr, n):
        try:
            fut.value = I3.do_await(fut.coro, fr, n)
        except RaiseSig as r:
            fut.exc = r.exc
        fut.state = "done"
        I3.c.heap.set("ghost.tasks", g(I3, "ghost.tasks") - 1)

    def wait(I, a, k, fr, n):
        futs = list(I.lib.iterate(I, a[0]))
        if not all(isinstance(f, LibObj) and f.kind == "future" for f in futs):
            raise Unsupported("asyncio.wait on something that is not a local future")
        timeout = k.get("timeout", a[1] if len(a) > 1 else None)

        def run(I3):
            for f in futs:
                if f.state != "pending":
                    continue
                # with a timeout the future may still be pending when wait returns - and wait does NOT cancel it (unlike wait_for)
                if timeout is not None and I3.c.branch(I3.c.fresh("wait_timed_out", BoolS), "asyncio.wait-timeout"):
                    continue
                complete(I3, f, fr, n)
            return ([f for f in futs if f.state != "pending"], [f for f in futs if f.state == "pending"])
        return coro(run)
    lib.ext_calls["asyncio.wait"] = wait

    def wait_for(I, a, k, fr, n):
        aw = a[0]

        def run(I3):
            if I3.c.branch(I3.c.fresh("wait_for_timed_out", BoolS), "asyncio.wait_for-timeout"):
                if isinstance(aw, LibObj) and aw.kind == "future" and aw.state == "pending":
                    aw.state, aw.exc = "cancelled", _exc(I3, "CancelledError", n)
                    I3.c.heap.set("ghost.tasks", g(I3, "ghost.tasks") - 1)
                raise RaiseSig(_exc(I3, "TimeoutError", n))  # the awaited thing is cancelled by wait_for
            if isinstance(aw, LibObj) and aw.kind == "future":
                if aw.state == "pending":
                    complete(I3, aw, fr, n)
                if aw.exc is not None:
                    raise RaiseSig(aw.exc)
                return aw.value
            return I3.do_await(aw, fr, n)
        return coro(run)
    lib.ext_calls["asyncio.wait_for"] = wait_for

    def gather(I, a, k, fr, n):
        def run(I3):
            for cv in a:  # A-AIO: all are run; the first exception propagates (sequential order is one legal schedule)
                I3.do_await(cv, fr, n)
            return None
        return coro(run)
    lib.ext_calls["asyncio.gather"] = gather

    def call_cancel_save(I, f, a, k, fr, n):
        q = "aiomysensors.persistence.Persistence.start.cancel_save"
        ct = I.w.contracts.get(q)
        fn = I.w.functions.get(q)
        if ct is None or fn is None:
            raise Unsupported("call of the stored cancel_save closure without its contract")

        def run(I3):
            # the closure variable `task` is the saver task: not a parameter of the call
            pre_task = I3.alloc(TOpaque("Task"))
            saved = fn.closure
            try:
                return I3.w.spec.apply_contract(I3, ct, fn, [], {}, fr, n) if not fn.node.args.args else None
            finally:
                fn.closure = saved
        return CoroVal(None, [], {}, runner=run)
    lib.opaque_calls = {"cancel_save": call_cancel_save}

    # ---- contextlib.suppress
    def suppress(I, a, k, fr, n):
        cm = LibObj("suppress", classes=tuple(a))
        cm.enter = lambda I2, fr2, n2: None
        cm.exit = lambda I2, exc, fr2, n2: exc is not None and I2.exc_matches(exc, cm.classes)
        return cm
    lib.ext_calls["contextlib.suppress"] = suppress

    # ---- aiomqtt client
    lib.ext_calls["aiomqtt.Client"] = lambda I, a, k, fr, n: I.alloc(TOpaque("AsyncioClient"))

    def client_attr(I, o, name, fr, node):
        def failing(label):
            def f(I2, a, k):
                def run(I3):
                    if I3.c.branch(I3.c.fresh(label + "_fails", BoolS), label):
                        raise RaiseSig(_exc(I3, "MqttError", node))
                    return None
                return coro(run)
            return f
        if name in ("__aenter__", "__aexit__"):
            return Builtin(f"Client.{name}", failing(name))
        if name == "publish":
            def publish(I2, a, k):
                def run(I3):
                    if I3.c.branch(I3.c.fresh("publish_fails", BoolS), "publish"):
                        raise RaiseSig(_exc(I3, "MqttError", node))
                    pl = g(I3, "ghost.plen")
                    I3.c.heap.set("ghost.ptopic", z3.Store(g(I3, "ghost.ptopic"), pl, I3.to_term(a[0], TStr)))
                    has = "payload" in k
                    I3.c.heap.set("ghost.ppayload", z3.Store(g(I3, "ghost.ppayload"), pl, I3.to_term(k["payload"], TStr) if has else z3.StringVal("")))
                    I3.c.heap.set("ghost.pqos", z3.Store(g(I3, "ghost.pqos"), pl, I3.to_term(k.get("qos", 0), TInt)))
                    I3.c.heap.set("ghost.plen", pl + 1)
                    return None
                return coro(run)
            return Builtin("Client.publish", publish)
        if name == "subscribe":
            def subscribe(I2, a, k):
                def run(I3):
                    if I3.c.branch(I3.c.fresh("subscribe_fails", BoolS), "subscribe"):
                        raise RaiseSig(_exc(I3, "MqttError", node))
                    sl = g(I3, "ghost.slen")
                    I3.c.heap.set("ghost.stopic", z3.Store(g(I3, "ghost.stopic"), sl, I3.to_term(a[0], TStr)))
                    I3.c.heap.set("ghost.sqos", z3.Store(g(I3, "ghost.sqos"), sl, I3.to_term(k.get("qos", 0), TInt)))
                    I3.c.heap.set("ghost.slen", sl + 1)
                    return None
                return coro(run)
            return Builtin("Client.subscribe", subscribe)
        if name == "messages":
            it = LibObj("mqtt_messages")

            def async_for(I2, s, fr2):
                # A-MQTT: the message iterator never ends; each step yields a broker message, raises MqttError,
                # or (the task being cancelled while it waits) raises CancelledError.
                c = I2.c
                o_ = c.choose([c.fresh("broker_error", BoolS), c.fresh("cancelled", BoolS)], "messages")
                if o_ == 0:
                    c.heap.set("ghost.broker_errors", g(I2, "ghost.broker_errors") + 1)
                    raise RaiseSig(_exc(I2, "MqttError", s))
                if o_ == 1:
                    raise RaiseSig(_exc(I2, "CancelledError", s))
                msg = LibObj("mqtt_message", payload=Sym(c.fresh("mqtt_payload", BytesS), "bytes"), topic=Sym(c.fresh("mqtt_topic", StrS), "str"))

                def mattr(I3, nm, fr3, n3):
                    if nm == "payload":
                        return msg.payload
                    if nm == "topic":
                        t = LibObj("mqtt_topic")
                        t.attr = lambda I4, nm4, fr4, n4: msg.topic if nm4 == "value" else MISSING
                        return t
                    return MISSING
                msg.attr = mattr
                I2.last_mqtt_message = msg
                for name in stored_names(list(s.body)):
                    fr2.locals[name] = LOOP_CARRIED  # the iteration executed stands for every iteration
                I2.assign(s.target, msg, fr2)
                try:
                    I2.block(s.body, fr2)
                except ContinueSig:
                    pass
                raise PathEnd("loop-back")
            it.async_for = async_for
            return it
        return MISSING
    lib.opaque_attrs["AsyncioClient"] = client_attr


_install2 = install


def install(lib):  # noqa: F811
    _install2(lib)
    _mqtt_install(lib)


# ---------------------------------------------------------------------------- files and JSON (A-FS, A-JSON)

json_ok = z3.Function("json_ok", StrS, BoolS)  # json.loads(s) succeeds
json_parse = z3.Function("json_parse", StrS, JsonS)
j_kind = z3.Function("json_kind", JsonS, IntS)  # 0 null 1 bool 2 int 3 float 4 str 5 list 6 dict
json_dump_of = z3.Function("json_dumps", Ref, StrS)  # json.dumps of the dict object built by save (state at call time)
dumped_node = z3.Function("dumped_node", Ref, JsonS)  # NodeSchema().dump(node) (state at call time)
KINDS = ["null", "bool", "int", "float", "str", "list", "dict"]


def _files_install(lib):
    def coro(fn):
        return CoroVal(None, [], {}, runner=fn)

    def g(I, name):
        return I.c.heap.get(name, I.w.ghost_sorts[name])

    def effect(I, kind, detail=None):
        I.c.__dict__.setdefault("fs_effects", []).append((kind, detail, I.c.heap.snapshot()))

    def is_main(I, path):
        """The persistence path itself (a plain attribute value) as opposed to a path derived from it (f"{path}.tmp")."""
        t = I.to_term(path, TStr)
        return not (z3.is_app(t) and t.decl().kind() == z3.Z3_OP_SEQ_CONCAT)

    def fs_move(label, kind):
        def op(I, a, k, fr, n):
            def run(I3):
                c = I3.c
                if kind == "remove":
                    src_main, dst_main = is_main(I3, a[0]), False
                else:
                    src_main, dst_main = is_main(I3, a[0]), is_main(I3, a[1])
                if src_main:
                    if not c.branch(g(I3, "ghost.file_exists"), "file-exists"):
                        raise RaiseSig(_exc(I3, "FileNotFoundError", n))
                if c.branch(c.fresh("fsop_fails", BoolS), label + "-oserror"):
                    raise RaiseSig(_exc(I3, "OSError", n))
                if src_main:
                    c.heap.set("ghost.other_disk", g(I3, "ghost.disk"))
                    c.heap.set("ghost.file_exists", z3.BoolVal(False))
                    effect(I3, "rename-away" if kind != "remove" else "remove")
                elif dst_main:
                    c.heap.set("ghost.disk", g(I3, "ghost.other_disk"))
                    c.heap.set("ghost.file_exists", z3.BoolVal(True))
                    effect(I3, "rename-into")
                return None
            if label.startswith("aiofiles."):
                return coro(run)
            return run(I)
        return op
    for mod in ("aiofiles.os", "os"):
        lib.ext_calls[f"{mod}.replace"] = fs_move(f"{mod}.replace", "move")
        lib.ext_calls[f"{mod}.rename"] = fs_move(f"{mod}.rename", "move")
        lib.ext_calls[f"{mod}.remove"] = fs_move(f"{mod}.remove", "remove")
        lib.ext_calls[f"{mod}.unlink"] = fs_move(f"{mod}.unlink", "remove")

    def aio_open(I, a, k, fr, n):
        path = a[0]
        mode = k.get("mode", a[1] if len(a) > 1 else "r")
        cm = LibObj("aiofile", path=path, mode=mode)
        main = is_main(I, path)
        disk_name = "ghost.disk" if main else "ghost.other_disk"

        def enter(I2, fr2, n2):
            c = I2.c
            if mode == "r":
                if not c.branch(g(I2, "ghost.file_exists"), "file-exists"):
                    raise RaiseSig(_exc(I2, "FileNotFoundError", n2))
                if c.branch(c.fresh("open_fails", BoolS), "open-oserror"):
                    raise RaiseSig(_exc(I2, "OSError", n2))
            else:
                if c.branch(c.fresh("open_fails", BoolS), "open-oserror"):
                    raise RaiseSig(_exc(I2, "OSError", n2))
                # A-FS: open(path, "w") truncates the file at open
                c.heap.set(disk_name, z3.StringVal(""))
                if main:
                    c.heap.set("ghost.file_exists", z3.BoolVal(True))
                effect(I2, "open-truncate" if main else "open-other-file")
            fh = LibObj("aiofile_handle")

            def hattr(I3, name, fr3, n3):
                if name == "read":
                    def read(I4, a4, k4):
                        def run(I5):
                            o_ = I5.c.choose([I5.c.fresh("read_oserror", BoolS), I5.c.fresh("read_undecodable", BoolS)], "file-read")
                            if o_ == 0:
                                raise RaiseSig(_exc(I5, "OSError", n3))
                            if o_ == 1:
                                raise RaiseSig(_exc(I5, "UnicodeDecodeError", n3))
                            return I5.mk(g(I5, disk_name), "str")
                        return coro(run)
                    return Builtin("file.read", read)
                if name == "write":
                    def write(I4, a4, k4):
                        def run(I5):
                            c5 = I5.c
                            s = I5.to_term(a4[0], TStr)
                            if c5.branch(c5.fresh("write_fails", BoolS), "file-write-oserror"):
                                c5.heap.set(disk_name, c5.fresh("partial_content", StrS))  # any prefix may be on disk
                                effect(I5, "partial-write" if main else "partial-write-other", s)
                                raise RaiseSig(_exc(I5, "OSError", n3))
                            effect(I5, "write-in-progress" if main else "write-other-in-progress", s)  # a crash during the write leaves a proper prefix
                            cur = g(I5, disk_name)
                            c5.heap.set(disk_name, z3.Concat(cur, s) if not z3.is_string_value(cur) or cur.as_string() else s)
                            effect(I5, "write-complete" if main else "write-other-complete", s)
                            c5.heap.set("ghost.saves", g(I5, "ghost.saves") + 1)  # one completed write of the persistence file
                            return None
                        return coro(run)
                    return Builtin("file.write", write)
                return MISSING
            fh.attr = hattr
            return fh

        def exit_(I2, exc, fr2, n2):
            if I2.c.branch(I2.c.fresh("close_fails", BoolS), "file-close-oserror"):
                raise RaiseSig(_exc(I2, "OSError", n2))
            if mode != "r":
                effect(I2, "close")
            return False
        cm.enter, cm.exit = enter, exit_
        return cm
    lib.ext_calls["aiofiles.open"] = aio_open

    def json_loads(I, a, k, fr, n):
        s = a[0]
        if isinstance(s, str):
            import json as _json
            try:
                v = _json.loads(s)
            except ValueError:
                raise RaiseSig(_exc(I, "JSONDecodeError", n)) from None
            if v == {}:
                return I.alloc(TDict(TStr, TJson))
            raise Unsupported("json.loads of a non-trivial literal")
        t = I.to_term(s, TStr)
        if not I.c.branch(json_ok(t), "json-ok"):
            raise RaiseSig(_exc(I, "JSONDecodeError", n))
        j = json_parse(t)
        return json_value(I, j)
    lib.ext_calls["json.loads"] = json_loads

    def json_dumps(I, a, k, fr, n):
        d = a[0]
        if isinstance(d, LibObj) and d.kind == "local_dict":
            d = d.obj(I)
        if isinstance(d, Obj) and d.typ.kind == "dict":
            if d.typ.args[0] == TInt:
                I.c.heap.set("ghost.dumped_keys", I.d_dom(d))  # which keys the serialised object has
            return Sym(json_dump_of(d.ref), "str")
        raise Unsupported("json.dumps of this value")
    lib.ext_calls["json.dumps"] = json_dumps

    def aio_shield(I, a, k, fr, n):
        # A-AIO: shield(aw) runs aw as its own task; cancelling the awaiter of the shield does not cancel aw, which keeps running detached
        inner = a[0]
        sh = LibObj("shielded", inner=inner)
        sh.awaited = lambda I2, fr2, n2: I2.do_await(inner, fr2, n2)
        return sh
    lib.ext_calls["asyncio.shield"] = aio_shield

    def aio_sleep(I, a, k, fr, n):
        def run(I3):
            I3.c.heap.set("ghost.slept", I3.to_term(a[0], TInt))
            return None
        return CoroVal(None, [], {}, runner=run)
    lib.ext_calls["asyncio.sleep"] = aio_sleep


def json_value(I, j):
    from . import mmjson
    return mmjson.json_value(I, j)


_install3 = install


def install(lib):  # noqa: F811
    _install3(lib)
    _files_install(lib)
