#!/bin/sh
# Build the overlay venv (CPython 3.12 + z3/cvc5 wheels + the repo's own site-packages). Offline.
set -e
cd "$(dirname "$0")"
if [ -x .venv/bin/python ] && .venv/bin/python -c "import z3, jsonschema, marshmallow, aiomysensors" 2>/dev/null; then
  exit 0
fi
rm -rf .venv
/venv/bin/python -m venv .venv
PIP_NO_INDEX=1 .venv/bin/pip install -q --no-index --find-links /opt/veriftools/wheels z3-solver cvc5 jsonschema hypothesis >/dev/null
echo "import site; site.addsitedir('/venv/lib/python3.12/site-packages')" > .venv/lib/python3.12/site-packages/_repo.pth
.venv/bin/python -c "import z3, jsonschema, marshmallow, aiomysensors"
